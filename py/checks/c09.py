"""C09: assignment changes exactly the addressed location; reads never change the input."""
import json, copy
from framework import Check, Case
from jqlib import simple_run, RunRes, unhx
import pyref, treeref
from pyref import UNSET
from treeref import RErr, Unspecified, ABSENT

KEYS = ["a", "b", "c", "k", "name", "l", "o", "zz", "x y", "é"]
SCALARS = [0.0, 1.0, -2.5, 7.0, 100.0, "s", "abc", "10", "", True, False, None]
LITERALS = SCALARS + [[], {}, [1.0, 2.0], {"k": 1.0}, [[1.0], {"z": 0.0}], {"a": {"b": [True]}}]
VARS = ["v", "w", "u", "s", "n"]
INIT = {"v": {"a": {"b": 1.0}, "l": [1.0, 2.0, 3.0]}, "w": [1.0, [2.0, 3.0], {"k": 4.0}], "s": 5.0, "n": None}
INIT_SRC = "v = {a: {b: 1}, l: [1, 2, 3]}\n w = [1, [2, 3], {k: 4}]\n s = 5\n n = null"


def rand_doc(rng, depth=3):
    k = rng.random()
    if depth <= 0 or k < 0.3:
        return rng.choice([0.0, 1.0, 2.5, -3.0, 10.0, "a", "abc", "x,y", "10", "", True, False, None, "héllo", 123456789012.0])
    if k < 0.65:
        return [rand_doc(rng, depth - 1) for _ in range(rng.randint(0, 4))]
    return {rng.choice(KEYS[:8]): rand_doc(rng, depth - 1) for _ in range(rng.randint(0, 4))}


def step_member(cur, k):
    if cur is ABSENT or cur is UNSET:
        return ABSENT
    try:
        return treeref.member(cur, k)
    except (RErr, Unspecified):
        return ABSENT


def pick_key(rng, cur):
    if isinstance(cur, list):
        n = len(cur)
        w = rng.random()
        if w < 0.45 and n:
            return float(rng.randrange(n))
        if w < 0.55:
            return float(n)
        if w < 0.65:
            return float(n + rng.randint(1, 3))
        if w < 0.8 and n:
            return float(-rng.randint(1, n))
        if w < 0.84:
            return float(-(n + 1))
        if w < 0.96:
            return rng.choice([0.5, 1.7, -0.5, 2.5, -1.5]) if n else rng.choice([0.5, 1.7])
        return rng.choice(["zz", "a"])
    if isinstance(cur, dict):
        w = rng.random()
        if w < 0.55 and cur:
            return rng.choice(sorted(cur))
        if w < 0.9:
            return rng.choice(KEYS)
        return rng.choice([0.0, 1.0, 1.7, -1.0])
    if rng.random() < 0.5:
        return rng.choice(KEYS)
    return rng.choice([0.0, 1.0, 2.0, 3.0, -1.0, 1.7])


def pick_path(rng, env, bases, depths=(0, 1, 1, 2, 2, 3, 4)):
    base = rng.choice(bases)
    cur = env.get(base, UNSET)
    keys = []
    for _ in range(rng.choice(depths)):
        if cur is UNSET:
            k = rng.choice([rng.choice(KEYS), float(rng.randint(0, 3))])
            cur = ABSENT
        else:
            k = pick_key(rng, cur if cur is not ABSENT else None)
            cur = step_member(cur, k)
        keys.append(k)
    return base, keys


# ---------------------------------------------------------------- store / read sequences

class Seq:
    """a statement sequence with the reference's expectation of what is printed after every statement"""

    def __init__(self, rng, doc, form):
        self.r = rng
        self.env = copy.deepcopy(INIT)
        self.env["$"] = copy.deepcopy(doc)
        self.form = form
        self.stmts = []         # source lines
        self.expect = []        # per executed statement: (doc tree, [var lines])
        self.error_at = None
        self.creates = False
        self.read_missing = False

    def snapshot(self):
        e = self.env
        return (copy.deepcopy(e["$"]), [pyref.pretty(e.get(x, UNSET)) for x in VARS + ["r"]])

    def add(self):
        """generate one statement; returns "added", "error" (the sequence ends with a runtime error) or "none" """
        for _ in range(30):
            saved = copy.deepcopy(self.env)
            self.pending_read = None
            try:
                src = self.one()
            except Unspecified:
                self.env = saved
                continue
            except RErr:
                self.env = saved
                if self.r.random() < 0.88:
                    continue            # most sequences go on; some end in the documented runtime error
                self.stmts.append(self.last_src)
                self.error_at = len(self.stmts) - 1
                return "error"
            self.stmts.append(src)
            self.expect.append(self.snapshot())
            return "added"
        return "none"

    def missing_before(self, base, keys):
        cur = self.env.get(base, UNSET)
        if cur is UNSET and keys:
            return len(keys) > 1
        for i, k in enumerate(keys):
            cur = step_member(cur, k)
            if cur is ABSENT:
                return i < len(keys) - 1
        return False

    def one(self):
        r = self.r
        env = self.env
        kind = r.choice(["store", "store", "store", "store", "op", "op", "incdec", "incdec", "read", "read"])
        bases = ["$", "$", "$", "v", "w", "u", "s", "n"]
        base, keys = pick_path(r, env, bases)
        p = treeref.src_path(base, keys, r)
        if kind == "store":
            val = copy.deepcopy(r.choice(LITERALS if r.random() < 0.6 else SCALARS))
            self.last_src = "%s = %s" % (p, pyref.literal(val))
            created = self.missing_before(base, keys)
            treeref.store(env, base, keys, val)
            self.creates |= created
            return self.last_src
        if kind == "op":
            op = r.choice(["+", "-", "*", "/", "+"])
            rv = r.choice([1.0, 2.0, 3.0, 0.5, "x", "2", 10.0, True]) if op == "+" else r.choice([1.0, 2.0, 3.0, 0.5, 4.0, "2"])
            self.last_src = "%s %s= %s" % (p, op, pyref.literal(rv))
            created = self.missing_before(base, keys)
            old = treeref.read(env, base, keys)
            try:
                new = pyref.binop(op, old, rv)
            except pyref.RuntimeErr as e:
                raise RErr(str(e))
            treeref.store(env, base, keys, new)
            self.creates |= created
            return self.last_src
        if kind == "incdec":
            op = r.choice(["++", "--"])
            prefix = r.random() < 0.5
            self.last_src = "r = %s%s" % (op, p) if prefix else "r = %s%s" % (p, op)
            created = self.missing_before(base, keys)
            old = pyref.num(treeref.read(env, base, keys))
            new = old + 1 if op == "++" else old - 1
            treeref.store(env, base, keys, new)
            env["r"] = new if prefix else old
            self.creates |= created
            return self.last_src
        # read: the value is printed by the statement itself (no alias is kept)
        if base in ("u",) and keys:
            raise Unspecified()             # indexing an unset variable turns it into a container: not a statement of C09
        self.last_src = "print '=', %s" % p
        val = treeref.read(env, base, keys)
        self.read_missing |= self.missing_before(base, keys) or (val is None and bool(keys))
        self.pending_read = pyref.pretty(val)
        return self.last_src


def build_seq(rng, doc, form, n):
    s = Seq(rng, doc, form)
    reads = []
    for i in range(n):
        st = s.add()
        if st == "added":
            reads.append(s.pending_read)
        elif st == "error":
            break
    lines = [INIT_SRC]
    for i, st in enumerate(s.stmts):
        lines.append(st)
        lines.append("print '#%d'\n print json($)\n print '~'\n print v\n print w\n print u\n print s\n print n\n print r" % i)
    body = "\n ".join(lines)
    prog = ("BEGINFILE { %s }" if form == "beginfile" else "{ %s }") % body
    # expected stdout in pieces
    pieces = []
    for i, (doc_after, varlines) in enumerate(s.expect):
        pieces.append({"read": reads[i], "doc": doc_after, "vars": varlines})
    return prog, pieces, s


def check_seq_stdout(stdout, pieces, error_expected):
    """compare the implementation's output with the reference, statement by statement"""
    try:
        text = stdout.decode("utf-8")
    except UnicodeDecodeError:
        return "output is not UTF-8"
    pos = 0
    for i, pc in enumerate(pieces):
        if pc["read"] is not None:
            want = "= " + pc["read"] + "\n"
            if not text.startswith(want, pos):
                return "statement %d (read): printed %r, reference %r" % (i, text[pos:pos + 60], want)
            pos += len(want)
        head = "#%d\n" % i
        if not text.startswith(head, pos):
            return "statement %d: output ends or differs here: %r" % (i, text[pos:pos + 60])
        pos += len(head)
        end = text.find("\n~\n", pos)
        if end < 0:
            return "statement %d: no document dump" % i
        try:
            got = treeref.loads(text[pos:end])
        except treeref.BadJson as e:
            return "statement %d: document dump is not JSON (%s)" % (i, e)
        if not treeref.samenum(got, pc["doc"]):
            return "statement %d: document is %s, reference %s" % (i, clip(json.dumps(got)), clip(json.dumps(pc["doc"])))
        pos = end + 3
        want = "".join(l + "\n" for l in pc["vars"])
        if not text.startswith(want, pos):
            return "statement %d: variables v w u s n r are %r, reference %r" % (i, text[pos:pos + len(want) + 20], want)
        pos += len(want)
    rest = text[pos:]
    if rest:
        return "output after the last %s statement: %r" % ("successful" if error_expected else "", rest[:80])
    return None


def clip(s, n=200):
    return s if len(s) <= n else s[:n - 3] + "..."


# ---------------------------------------------------------------- pure reads

def read_program(rng, doc, per_element):
    """(program, expected stdout or None for a runtime error) of a rule that only reads; None if outside the family"""
    items = doc if (per_element and isinstance(doc, list)) else [doc]
    names = iter(["x", "y", "z", "q", "t", "h", "x2", "y2"])
    stmts = []          # (source, keys, prints)
    for _ in range(rng.randint(1, 6)):
        env = {"$": rng.choice(items) if items else None}
        base, keys = pick_path(rng, env, ["$"], depths=(1, 1, 2, 2, 3, 4))
        p = treeref.src_path("$", keys, rng)
        form = rng.choice(["assign", "print", "print", "cond", "arith", "method", "forin"])
        if form == "assign":
            stmts.append(("%s = %s" % (next(names), p), keys, False))
        elif form == "print":
            stmts.append(("print '=', %s" % p, keys, True))
        elif form == "cond":
            stmts.append(("if (%s) { c++ }" % p, keys, False))
        elif form == "arith":
            stmts.append(("%s = %s + 1" % (next(names), p), keys, False))
        elif form == "method":
            # non-mutating methods, called only where the receiver has the right kind
            stmts.append(("t_ = %s\n if (t_ is array) { m1 = t_.length()\n m2 = t_.sort() }\n if (t_ is object) { m3 = t_.length()\n m4 = t_.pluck('a', 'zz') }\n"
                          " if (t_ is string) { m5 = t_.length()\n m6 = t_.upper()\n m7 = t_.split(',') }\n if (t_ is number) { m8 = t_.floor() }" % p, keys, False))
        else:
            stmts.append(("t_ = %s\n if (t_ is array || t_ is object || t_ is string) { for (e_, i_ in t_) { cnt++ } }" % p, keys, False))
    expected = ""
    failed = False
    for item in items:
        env = {"$": item}
        for src, keys, prints in stmts:
            try:
                val = treeref.read(env, "$", keys)
            except RErr:
                failed = True
                break
            except Unspecified:
                return None
            if prints:
                expected += "= " + pyref.pretty(val) + "\n"
        if failed:
            break
    body = "\n ".join(src for src, _, _ in stmts)
    prog = ("{ %s }" if per_element else "BEGINFILE { %s }") % body
    return prog, (None if failed else expected)


# ---------------------------------------------------------------- sharing probes

def sharing_probes(rng):
    """(program, input or None, expected stdout, tags, slice-semantics stdout or None)"""
    X = rng.choice([1.0, 5.0, "s", True, 2.5])
    Y = rng.choice([9.0, "t", False, 0.0])
    x, y = pyref.literal(X), pyref.literal(Y)
    px, py_ = pyref.pretty(X), pyref.pretty(Y)
    qx, qy = pyref.pretty(X, True), pyref.pretty(Y, True)
    n = rng.randint(1, 4)
    arr = [float(i + 1) for i in range(n)]
    la = pyref.literal(arr)
    i = rng.randrange(n)

    def pa(a):
        return pyref.pretty(a)

    def set_(a, k, v):
        b = list(a)
        b[k] = v
        return b
    P = []
    # scalars are copied
    P.append(("BEGIN { a = %s\n b = a\n b = %s\n print a, b }" % (x, y), None, "%s %s\n" % (px, py_), ("scalar_copy",), None))
    P.append(("BEGIN { a = 5\n b = a\n b++\n a += 10\n print a, b }", None, "15 6\n", ("scalar_copy",), None))
    P.append(("BEGIN { o = {k: %s}\n c = o.k\n c = %s\n print o.k, c }" % (x, y), None, "%s %s\n" % (px, py_), ("scalar_copy",), None))
    P.append(("BEGIN { arr = [%s]\n c = arr[0]\n c = %s\n print arr[0], c }" % (x, y), None, "%s %s\n" % (px, py_), ("scalar_copy",), None))
    P.append(("BEGIN { s = %s\n o = {}\n o.k = s\n s = %s\n print o.k, s }" % (x, y), None, "%s %s\n" % (px, py_), ("scalar_copy",), None))
    P.append(("BEGIN { s = %s\n arr = [0]\n arr[0] = s\n s = %s\n print arr[0], s }" % (x, y), None, "%s %s\n" % (px, py_), ("scalar_copy",), None))
    P.append(("BEGIN { s = %s\n arr = [s]\n o = {k: s}\n s = %s\n print arr[0], o.k, s }" % (x, y), None, "%s %s %s\n" % (px, px, py_), ("scalar_copy",), None))
    P.append(("function f(p) { p = %s\n return p }\nBEGIN { a = %s\n r = f(a)\n print a, r }" % (y, x), None, "%s %s\n" % (px, py_), ("scalar_copy",), None))
    P.append(("function f(p) { p++\n return p }\nBEGIN { a = 1\n r = f(a)\n print a, r }", None, "1 2\n", ("scalar_copy",), None))
    P.append(("{ c = $.k\n c = %s\n d = $.l[0]\n d++ }" % y, json.dumps({"k": 1, "l": [1, 2]}), None, ("scalar_copy", "doc"), None))
    # a missing member passed as an argument, returned, or copied into a variable is a plain null there:
    # assigning to the parameter / variable never creates the member in the document
    DOCM = json.dumps({"a": {}, "n": 1, "l": [1]})
    P.append(("function def(x, d) { if (x == null) { x = d }\n return x }\n{ print def($.a.limit, %s) }" % y, DOCM, None, ("scalar_copy", "doc", "missing_arg"), None))
    P.append(("function f(p) { p = %s\n q = p }\n{ f($.nope)\n f($.a.deep.er)\n f($[5])\n f($.a[2])\n f($.l[3]) }" % x, DOCM, None, ("scalar_copy", "doc", "missing_arg"), None))
    P.append(("function f(p) { p++\n p += 2\n return p }\n{ r = f($.a.cnt)\n t = f($.n)\n u = f($.l[7]) }", DOCM, None, ("scalar_copy", "doc", "missing_arg"), None))
    P.append(("function f(p, q) { q = %s\n return q }\n{ f(1)\n f($.a.b, $.a.c) }" % x, DOCM, None, ("scalar_copy", "doc", "missing_arg"), None))
    P.append(("function g(p) { return p }\n{ r = g($.a.none)\n r = %s\n v = $.a.other\n v = %s\n w = [$.zz]\n w[0] = 1 }" % (x, y), DOCM, None, ("scalar_copy", "doc", "missing_arg"), None))
    # ... also when the missing read is RETURNED by a function and the call stands directly inside a literal or an argument list
    P.append(("function get(o) { return o.missing }\nfunction idx(o) { return o.l[9] }\nfunction set(p) { p = %s\n return p }\n"
              "{ a = [get($), idx($)]\n a[0] = %s\n a[1]++\n o2 = {k: get($.a)}\n o2.k = 1\n set(get($))\n set(idx($))\n set(get($.a))\n"
              " b = [[get($)]]\n b[0][0] = 2\n c = [0]\n c.push(get($))\n c[1] = 3 }" % (x, y), DOCM, None, ("scalar_copy", "doc", "missing_arg"), None))
    P.append(("function get(o) { return o.missing }\nfunction set(p) { p = 7\n return p }\nBEGIN { m = {\"k\": 1}\n a = [get(m)]\n a[0] = 5\n"
              " r = set(get(m))\n print m, a, r }", None, "{\"k\": 1} [5] 7\n", ("scalar_copy", "missing_arg"), None))
    # containers are shared: element stores
    P.append(("BEGIN { a = %s\n b = a\n b[%d] = %s\n print a, b }" % (la, i, x), None, "%s %s\n" % (pa(set_(arr, i, X)), pa(set_(arr, i, X))), ("shared_store",), None))
    P.append(("BEGIN { a = %s\n b = a\n a[%d] = %s\n print a, b }" % (la, i, x), None, "%s %s\n" % (pa(set_(arr, i, X)), pa(set_(arr, i, X))), ("shared_store",), None))
    P.append(("BEGIN { o = {k: 1}\n p = o\n p.k = %s\n p.n = %s\n print o, p }" % (x, y), None,
              "{\"k\": %s, \"n\": %s} {\"k\": %s, \"n\": %s}\n" % (qx, qy, qx, qy), ("shared_store",), None))
    P.append(("BEGIN { o = {}\n a = %s\n o.inner = a\n a[%d] = %s\n print o }" % (la, i, x), None, "{\"inner\": %s}\n" % pa(set_(arr, i, X)), ("shared_store",), None))
    P.append(("BEGIN { a = %s\n o = {inner: a}\n o.inner[%d] = %s\n print a }" % (la, i, x), None, "%s\n" % pa(set_(arr, i, X)), ("shared_store",), None))
    P.append(("BEGIN { a = [[1], [2]]\n b = a[0]\n b[0] = %s\n c = a[1]\n a[1][0] = %s\n print a, c }" % (x, y), None, "[[%s], [%s]] [%s]\n" % (qx, qy, qy), ("shared_store",), None))
    P.append(("BEGIN { a = [%s, 0]\n b = [a, a]\n a[1] = %s\n b[0][0] = 7\n print b }" % (x, y), None, "[[7, %s], [7, %s]]\n" % (qy, qy), ("shared_store",), None))
    P.append(("function f(p) { p[%d] = %s }\nBEGIN { a = %s\n f(a)\n print a }" % (i, x, la), None, "%s\n" % pa(set_(arr, i, X)), ("shared_store", "param"), None))
    P.append(("function f(p) { p.k = %s\n p.n = 1 }\nBEGIN { o = {k: 0}\n f(o)\n print o }" % x, None, "{\"k\": %s, \"n\": 1}\n" % qx, ("shared_store", "param"), None))
    P.append(("BEGIN { arr = [{k: 1}, {k: 2}]\n for (e in arr) { e.k = %s }\n print arr }" % x, None, "[{\"k\": %s}, {\"k\": %s}]\n" % (qx, qx), ("shared_store", "loopvar"), None))
    P.append(("BEGIN { arr = [[1], [2, 3]]\n for (e in arr) { e[0] = %s }\n print arr }" % x, None, "[[%s], [%s, 3]]\n" % (qx, qx), ("shared_store", "loopvar"), None))
    P.append(("BEGIN { o = {a: [1], b: {c: 2}}\n for (k, e in o) { e[0] = %s\n e.c = 5 }\n print o.b }" % x, None, None, ("skip",), None))
    P.append(("{ t = $.a\n t.k = %s\n u = $.l\n u[0] = %s }" % (x, y), json.dumps({"a": {"k": 0}, "l": [1, 2]}),
              ("json", {"a": {"k": X}, "l": [Y, 2.0]}), ("shared_store", "doc"), None))
    P.append(("{ $.b = $.a\n $.b.k = %s }" % x, json.dumps({"a": {"k": 0}}), ("json", {"a": {"k": X}, "b": {"k": X}}), ("shared_store", "doc"), None))
    # length-changing operations through an alias: known finding F-C09-alias
    T = ("alias_length_change",)
    P.append(("BEGIN { a = %s\n b = a\n a.push(%s)\n print b }" % (la, x), None, "%s\n" % pa(arr + [X]), T, "%s\n" % pa(arr)))
    P.append(("BEGIN { a = %s\n b = a\n b.push(%s)\n print a }" % (la, x), None, "%s\n" % pa(arr + [X]), T, "%s\n" % pa(arr)))
    P.append(("BEGIN { a = %s\n b = a\n a.pop()\n print b }" % la, None, "%s\n" % pa(arr[:-1]), T, "%s\n" % pa(arr)))
    P.append(("BEGIN { a = %s\n b = a\n a.popfirst()\n print b }" % la, None, "%s\n" % pa(arr[1:]), T, "%s\n" % pa(arr)))
    P.append(("BEGIN { a = %s\n b = a\n a[%d] = %s\n print b }" % (la, n + 1, x), None, "%s\n" % pa(arr + [None, X]), T, "%s\n" % pa(arr)))
    P.append(("BEGIN { o = {l: %s}\n b = o.l\n b.push(%s)\n print o }" % (la, x), None, "{\"l\": %s}\n" % pa(arr + [X]), T, "{\"l\": %s}\n" % pa(arr)))
    P.append(("function f(p) { p.push(%s) }\nBEGIN { a = %s\n f(a)\n print a }" % (x, la), None, "%s\n" % pa(arr + [X]), T, "%s\n" % pa(arr)))
    P.append(("function f(p) { p[%d] = %s }\nBEGIN { a = %s\n f(a)\n print a }" % (n, x, la), None, "%s\n" % pa(arr + [X]), T, "%s\n" % pa(arr)))
    return [p for p in P if "skip" not in p[3]]



# ---------------------------------------------------------------- several root selectors over one input value
# -r E is documented as BEGINFILE { $ = E } for each selector in turn: every root is a value of its own, so a write made
# while the first root is processed is not there when the next root is processed, however the selected parts overlap.

SEL_PATHS = [[], ["items"], ["items", 0.0], ["items", 1.0], ["items", -1.0], ["meta"], ["deep"], ["deep", "items"], ["deep", "items", 0.0]]
WRITE_PATHS = [["seen"], ["tag"], ["n"], ["tags", 0.0], ["tags", 2.0], ["sub", "k"], ["items", 0.0, "seen"], ["items", 1.0, "tag"],
               ["items", -1.0, "seen"], ["meta", "seen"], ["meta", "tags", 1.0], ["deep", "items", 0.0, "seen"], ["deep", "seen"],
               ["id"], ["fresh", "list", 1.0]]


def sel_doc(rng):
    def item(i):
        return {"id": float(i), "seen": 0.0, "tag": rng.choice(["a", "b", ""]), "tags": [rng.choice(["x", "y", 1.0]) for _ in range(rng.randint(0, 3))]}
    nid = [0]

    def items():
        out = []
        for _ in range(rng.randint(1, 3)):
            nid[0] += 1
            out.append(item(nid[0]))
        return out
    return {"items": items(), "meta": dict(item(90), n=1.0), "deep": {"items": items(), "seen": 0.0}, "seen": 0.0, "id": 99.0}


def prefix(a, b):
    return a[:len(b)] == b or b[:len(a)] == a


def selectors_case(rng):
    """(program, selectors, input text, expected stdout, overlapping?) or None"""
    doc = sel_doc(rng)
    nsel = rng.choice([2, 2, 2, 3])
    sels = [rng.choice(SEL_PATHS)]
    while len(sels) < nsel:
        c = rng.choice(SEL_PATHS)
        if rng.random() < 0.75 and not any(prefix(c, s_) for s_ in sels):
            continue                # mostly overlapping selections (equal, or one inside the other)
        sels.append(c)
    stmts = []
    for _ in range(rng.randint(1, 4)):
        keys = rng.choice(WRITE_PATHS)
        w = rng.random()
        if w < 0.35:
            stmts.append((keys, "++", None))
        elif w < 0.7:
            stmts.append((keys, "=", rng.choice([1.0, 7.0, "w", True, [1.0], {"k": 2.0}])))
        else:
            stmts.append((keys, rng.choice(["+=", "-=", "*="]), rng.choice([1.0, 2.0, 10.0])))
    src = []
    for keys, op, val in stmts:
        pth = treeref.src_path("$", keys, rng)
        src.append(pth + "++" if op == "++" else "%s %s %s" % (pth, op, pyref.literal(val)))
    form = rng.choice(["rule", "rule", "beginfile"])
    out = []
    try:
        roots = []
        for sp in sels:
            r_ = treeref.read({"$": copy.deepcopy(doc)}, "$", sp)      # every selector sees the value as it was read
            roots.append(r_)
        for root in roots:
            elems = root if (form == "rule" and isinstance(root, list)) else [root]
            if any(not isinstance(e, dict) for e in elems):
                return None
            for e in elems:
                env = {"$": e}
                out.append("< " + pyref.pretty(env["$"]))
                for keys, op, val in stmts:
                    if op == "++":
                        treeref.store(env, "$", keys, pyref.num(treeref.read(env, "$", keys)) + 1)
                    elif op == "=":
                        treeref.store(env, "$", keys, copy.deepcopy(val))
                    else:
                        treeref.store(env, "$", keys, pyref.binop(op[0], treeref.read(env, "$", keys), val))
                out.append("> " + pyref.pretty(env["$"]))
    except (RErr, Unspecified, pyref.RuntimeErr):
        return None
    body = "print '<', $\n " + "\n ".join(src) + "\n print '>', $"
    prog = ("{ %s }" if form == "rule" else "BEGINFILE { %s }") % body
    overlap = any(prefix(a, b) for i, a in enumerate(sels) for b in sels[i + 1:])
    return prog, [treeref.src_path("$", sp) for sp in sels], json.dumps(doc), "".join(l + "\n" for l in out), overlap


# ---------------------------------------------------------------- compound assignment whose TARGET has a side effect
# `a op= b` means `a = a op b`: the two spellings must behave identically, also when evaluating a changes something
# (a[i++] += 10 advances i exactly as a[i++] = a[i++] + 10 does).  Judged as a pair: same output, same outcome.

def compound_pairs(rng):
    """list of (setup, target, rhs, show): statements before, the target text, the right-hand side, what to print afterwards"""
    n = rng.randint(3, 6)
    arr = [float(rng.randint(1, 9)) for _ in range(n)]
    la = pyref.literal(arr)
    i0 = rng.randint(0, n - 3)
    keys = rng.sample(["a", "b", "c", "d"], 3)
    lo = "{" + ", ".join("%s: %d" % (k, rng.randint(1, 9)) for k in keys) + "}"
    loo = "{" + ", ".join("%s: {v: %d}" % (k, rng.randint(1, 9)) for k in keys) + "}"
    q = "[" + ", ".join(str(rng.randint(0, n - 1)) for _ in range(4)) + "]"
    kf = "function nk() { c_++\n return ks[c_ - 1] }\nfunction say(v) { print 'say', v\n return v }\n"
    ks = "ks = [" + ", ".join("'%s'" % k for k in keys + keys) + "]"
    T = [
        ("arr = %s\n i = %d" % (la, i0), "arr[i++]", "arr, i"),
        ("arr = %s\n i = %d" % (la, i0), "arr[++i]", "arr, i"),
        ("arr = %s\n i = %d" % (la, n - 1), "arr[i--]", "arr, i"),
        ("arr = %s\n i = %d" % (la, n - 1), "arr[--i]", "arr, i"),
        ("arr = %s\n n = %d" % (la, i0), "arr[n = n + 1]", "arr, n"),
        ("arr = %s\n i = %d" % (la, i0), "$.arr[i++]", "$.arr, i"),
        ("arr = %s\n i = %d" % (la, i0), "$.o.list[i++]", "$.o, i"),
        ("o = %s\n %s\n c_ = 0" % (lo, ks), "o[nk()]", "o, c_"),
        ("o = %s\n %s\n c_ = 0" % (loo, ks), "o[nk()].v", "o, c_"),
        ("x = %s\n q = %s" % (la, q), "x[q.pop()]", "x, q.length()"),
        ("x = %s\n q = %s" % (la, q), "x[q.popfirst()]", "x, q.length()"),
        ("m = [[1, 2, 3], [4, 5, 6], [7, 8, 9]]\n i = 0\n j = 0", "m[i++][j++]", "m, i, j"),
        ("m = [[1, 2, 3], [4, 5, 6], [7, 8, 9]]\n i = 0", "m[i++][i++]", "m, i"),
        ("w = %s" % la, "w[say(%d)]" % i0, "w"),
        ("arr = %s\n i = %d" % (la, i0), "arr[i++ + 1]", "arr, i"),
        ("arr = %s\n i = %d" % (la, n - 2), "arr[i++]", "arr, i"),               # the re-read lands past the end: null + b
        ("u_ = 0\n i = 0", "nw[i++]", "nw, i"),                                   # an unset container
        ("o = %s\n i = 0" % lo, "o['k' + i++]", "o, i"),
    ]
    out = []
    for setup, target, show in T:
        op = rng.choice(["+", "+", "-", "*", "/"])
        rhs = rng.choice(["10", "2", "0.5", "i + 1" if " i =" in setup or setup.startswith("i =") else "3", "'s'" if op == "+" else "4"])
        out.append((kf, setup, target, op, rhs, show))
    return out


def compound_programs(kf, setup, target, op, rhs, show, host):
    doc = '{"arr": [1, 2, 3, 4, 5, 6], "o": {"list": [5, 6, 7, 8, 9, 10]}}'
    res = []
    for stmt in ("%s %s= %s" % (target, op, rhs), "%s = %s %s (%s)" % (target, target, op, rhs)):
        body = "%s\n r_ = (%s)\n print r_, %s" % (setup, stmt, show)
        if rng_free_uses_doc(target) or host == "rule":
            prog = kf + "{ %s }" % body
            inp = doc
        else:
            prog = kf + "BEGIN { %s }" % body
            inp = None
        res.append((prog, inp, stmt))
    return res


def rng_free_uses_doc(target):
    return target.startswith("$")


# ---------------------------------------------------------------- containers RETURNED by methods
# a.sort(), o.pluck(...), s.split(...) make a new container holding copies of the scalars: stores / ++ / op= / push / pop on the
# result change nothing in the receiver (or the document it lives in), and later changes of the receiver do not show in the result.

MR_WORDS = ["pear", "fig", "apple", "kiwi", "plum", "date", "lime", "nut", "yam", "oat"]


def mr_array(rng, n, kind):
    if kind == "num":
        pool = [float(x) for x in rng.sample(range(-9, 60), max(1, n))] + [2.5, -0.5, 30.0, 30.0]
        return [rng.choice(pool) if rng.random() < 0.25 else pool[i % len(pool)] for i in range(n)]
    if kind == "str":
        return [rng.choice(MR_WORDS) + rng.choice(["", "", "2", "s"]) for _ in range(n)]
    return [rng.choice([float(rng.randint(0, 30)), rng.choice(MR_WORDS)]) for _ in range(n)]


def mr_sorted(a):
    if all(isinstance(x, float) for x in a):
        return sorted(a)
    return sorted(a, key=lambda v: (pyref.fmt_f(v) if isinstance(v, float) else v).encode())


def mr_list_op(rng, cur, numeric):
    """one change of a list: (kind, index or None, value or None)"""
    n = len(cur)
    V = rng.choice([0.0, 99.0, -1.0, "new", True, None, 7.5])
    w = rng.random()
    if n and w < 0.4:
        return ("store", float(rng.randrange(n)), V)
    if n and w < 0.5:
        return ("store", float(-rng.randint(1, n)), V)
    if n and w < 0.68:
        i = rng.randrange(n)
        if isinstance(cur[i], float):
            return rng.choice([("inc", float(i), None), ("dec", float(i), None), ("op", float(i), 5.0)])
        return ("op", float(i), "x")
    if w < 0.8:
        return ("push", None, V)
    if w < 0.88:
        return ("store", float(n + rng.choice([0, 0, 1, 3])), V)
    if n and w < 0.95:
        return (rng.choice(["pop", "popfirst"]), None, None)
    return ("push", None, V)


def mr_apply_list(cur, op):
    kind, i, V = op
    env = {"T": cur}
    if kind == "store":
        treeref.store(env, "T", [i], V)
    elif kind in ("inc", "dec"):
        treeref.store(env, "T", [i], pyref.num(treeref.read(env, "T", [i])) + (1.0 if kind == "inc" else -1.0))
    elif kind == "op":
        treeref.store(env, "T", [i], pyref.binop("+", treeref.read(env, "T", [i]), V))
    elif kind == "push":
        cur.append(V)
    elif kind == "pop":
        cur.pop()
    else:
        cur.pop(0)


def mr_src_list(T, op):
    kind, i, V = op
    t = "%s[%s]" % (T, pyref.fmt_f(i) if i is not None and i >= 0 else ("-" + pyref.fmt_f(-i) if i is not None else ""))
    if kind == "store":
        return "%s = %s" % (t, pyref.literal(V))
    if kind == "inc":
        return "%s++" % t
    if kind == "dec":
        return "r_ = --%s" % t
    if kind == "op":
        return "%s += %s" % (t, pyref.literal(V))
    if kind == "push":
        return "%s.push(%s)" % (T, pyref.literal(V))
    return "%s.%s()" % (T, kind)


def mr_host(rng, recv):
    """(receiver expression, setup statements, rule template, document or None, path of the receiver in the document)"""
    h = rng.choice(["var", "objvar", "doc", "docdeep", "root", "param"])
    lit = pyref.literal(recv)
    if h == "var":
        return "a", "a = %s" % lit, "BEGIN {\n %s\n}", None, None
    if h == "objvar":
        return rng.choice(["v.l", "v['l']"]), "v = {l: %s, n: 1}" % lit, "BEGIN {\n %s\n}", None, None
    if h == "param":
        return "pp", None, "function fn(pp) {\n %%s\n}\nBEGIN { fn(%s) }" % lit, None, None
    if h == "doc":
        return "$.scores", None, "{\n %s\n}", {"scores": recv, "n": 1.0}, ["scores"]
    if h == "docdeep":
        return "$.o.list", None, "{\n %s\n}", {"o": {"list": recv, "k": "v"}, "l": [1.0]}, ["o", "list"]
    return "$", None, "BEGINFILE {\n %s\n}", recv, []


def method_result_case(rng, n, method, who):
    """who: 'result' / 'receiver' / 'both' = which side is changed after the call"""
    if method == "sort":
        recv = mr_array(rng, n, rng.choice(["num", "num", "num", "str", "mixed"]))
        res = mr_sorted(recv)
        call = "%s.sort()"
    elif method == "split":
        recv = ",".join(rng.choice(MR_WORDS + [""]) for _ in range(n)) if n else ""
        res = recv.split(",")
        call = "%s.split(',')"
    else:
        keys = rng.sample(["a", "b", "c", "d", "k1", "zz"], min(6, max(1, n)))
        recv = {k: rng.choice([1.0, 2.5, "x", True, None, 40.0]) for k in keys}
        want = rng.sample(keys, rng.randint(1, len(keys))) + rng.sample(["miss", "length"], rng.randint(0, 2))
        res = {k: recv.get(k) for k in want}
        call = "%s.pluck(" + ", ".join(pyref.literal(k) for k in want) + ")"
    R, setup, tmpl, doc, dpath = mr_host(rng, recv)
    if method != "sort" and R == "$" and not isinstance(recv, list):
        if method == "split":
            return None
        tmpl = "{\n %s\n}"          # an object root: the pattern rule sees it as $
    recv = copy.deepcopy(recv)
    if doc is not None:
        doc = copy.deepcopy(doc)
        recv = doc
        for k in dpath:
            recv = recv[k]
    inp = json.dumps(doc) if doc is not None else None
    lines = [setup] if setup else []
    lines += ["s = " + call % R, "print 's', s", "print 'r', %s" % R]
    out = ["s " + pyref.pretty(res), "r " + pyref.pretty(recv)]
    nops = rng.choice([1, 1, 2, 3])
    touched_res = touched_recv = False
    for j in range(nops):
        side = who if who != "both" else ("result" if j % 2 == 0 else "receiver")
        if side == "receiver" and method == "split":
            # the receiver is a string: replace it
            newv = rng.choice(["q,r", "", "zzz"])
            lines.append("%s = %s" % (R, pyref.literal(newv)))
            if doc is None:
                recv = newv
            else:
                par = doc
                for k in dpath[:-1]:
                    par = par[k]
                par[dpath[-1]] = newv
                recv = newv
            touched_recv = True
        elif method == "pluck":
            T, cur = ("s", res) if side == "result" else (R, recv)
            key = rng.choice(sorted(cur) + ["fresh"]) if cur else "fresh"
            w = rng.random()
            if w < 0.5 or not isinstance(cur.get(key), float):
                V = rng.choice([0.0, "new", False, [1.0]])
                lines.append("%s = %s" % (treeref.src_path(T, [key], rng), pyref.literal(V)))
                cur[key] = V
            else:
                lines.append("%s++" % treeref.src_path(T, [key], rng))
                cur[key] = cur[key] + 1.0
            touched_res |= side == "result"
            touched_recv |= side == "receiver"
        else:
            T, cur = ("s", res) if side == "result" else (R, recv)
            op = mr_list_op(rng, cur, True)
            try:
                mr_apply_list(cur, op)
            except (RErr, Unspecified, pyref.RuntimeErr):
                return None
            lines.append(mr_src_list(T, op))
            touched_res |= side == "result"
            touched_recv |= side == "receiver"
        lines += ["print 's', s", "print 'r', %s" % R]
        out += ["s " + pyref.pretty(res), "r " + pyref.pretty(recv)]
    prog = tmpl % "\n ".join(lines)
    what = "%s of %d elements at %s, then %s changed" % (method, n, R, who)
    return prog, inp, "".join(l + "\n" for l in out), doc, what


# ---------------------------------------------------------------- scalars arriving in a container through an EXPRESSION
# bounds = [lo = 0, $.limit = $.limit * 2]: the value of an assignment (=, op=, ++x), of a parenthesised or chained one, or a
# plain read of a variable / member / document member becomes an element of an array literal, a value of an object literal, an
# argument of a call (a parameter; an element of the array the function builds), an argument of push.  The container holds a
# COPY: a later store / ++ / op= into the container leaves the variable, the member and the document alone, and the other way round.

CP_DOC = {"limit": 5.0, "name": "n", "tags": [1.0, 2.0], "sub": {"v": 2.0}}
CP_VARS = {"x": 1.0, "s": "str", "o": {"k": 1.0, "j": "w"}, "l": [1.0, 2.0, 3.0]}
CP_VARS_SRC = "x = 1\n s = 'str'\n o = {k: 1, j: 'w'}\n l = [1, 2, 3]"
CP_LOCS_VAR = [("x", []), ("s", []), ("o", ["k"]), ("o", ["j"]), ("l", [0.0]), ("l", [1.0]), ("l", [-1.0]), ("nv", []), ("o", ["fresh"])]
CP_LOCS_DOC = [("$", ["limit"]), ("$", ["name"]), ("$", ["tags", 0.0]), ("$", ["tags", -1.0]), ("$", ["sub", "v"]), ("$", ["fresh"]), ("$", ["sub", "w"])]
CP_SHOW = ["x", "s", "o", "l", "nv", "nw"]
CP_FORMS = ["array", "array", "object", "nested", "push", "mk", "param", "inobj", "print"]


def cp_exists(env, base, keys):
    if base not in env:
        return False
    try:
        cur = env[base]
        for k in keys:
            cur = step_member(cur, k)
            if cur is ABSENT:
                return False
        return True
    except (RErr, Unspecified):
        return False


def cp_source(rng, env, loc, used_chain):
    """one expression naming the location loc: (source text, its value, kind); env is updated"""
    base, keys = loc
    p = treeref.src_path(base, keys, rng)
    exists = cp_exists(env, base, keys)
    old = treeref.read(env, base, keys) if exists else None
    V = rng.choice([0.0, 7.0, -1.0, 2.5, "new", "", True, False, None, 40.0])
    forms = ["assign", "assign", "paren"]
    if exists:
        forms += ["read", "assign-expr", "assign-expr", "compound", "chain"]
        if isinstance(old, float):
            forms += ["preinc", "compound"]
    form = rng.choice(forms)
    if form == "chain" and used_chain[0]:
        form = "assign"
    if form == "read":
        return p, old, form
    if form == "assign":
        new, src = V, "%s = %s" % (p, pyref.literal(V))
    elif form == "paren":
        new, src = V, "(%s = %s)" % (p, pyref.literal(V))
    elif form == "assign-expr":
        if isinstance(old, float):
            new, src = old * 2, "%s = %s * 2" % (p, p)
        else:
            new, src = pyref.binop("+", old, "z"), "%s = %s + 'z'" % (p, p)
    elif form == "compound":
        if isinstance(old, float):
            k = rng.choice([1.0, 10.0])
            new, src = old + k, "%s += %s" % (p, pyref.fmt_f(k))
        else:
            new, src = pyref.binop("+", old, "y"), "%s += 'y'" % p
    elif form == "preinc":
        new, src = old + 1, "++%s" % p
    else:
        used_chain[0] = True
        new, src = V, "nw = %s = %s" % (p, pyref.literal(V))
        env["nw"] = copy.deepcopy(V)
    treeref.store(env, base, keys, copy.deepcopy(new))
    return src, new, form


def cp_case(rng, form=None):
    """(program, input or None, expected stdout, final document or None, what) or None"""
    host = rng.choice(["rule", "rule", "begin", "func"])
    env = copy.deepcopy(CP_VARS)
    if host == "rule":
        env["$"] = copy.deepcopy(CP_DOC)
    locs = CP_LOCS_VAR + (CP_LOCS_DOC * 2 if host == "rule" else [])
    form = form or rng.choice(CP_FORMS)
    k = rng.randint(1, 3) if form not in ("object", "nested") else (2 if form == "object" else 3)
    if form in ("mk", "param", "inobj"):
        k = 2
    chosen = []
    for loc in rng.sample(locs, len(locs)):
        # one location per base member: l[1] and l[-1] would be the same place
        if any(loc[0] == c[0] and (loc[1][:1] == c[1][:1] or not loc[1] or not c[1]) for c in chosen):
            continue
        chosen.append(loc)
        if len(chosen) == k:
            break
    used_chain = [False]
    try:
        srcs = [cp_source(rng, env, loc, used_chain) for loc in chosen]
    except (RErr, Unspecified, pyref.RuntimeErr):
        return None
    texts = [t for t, _, _ in srcs]
    vals = [copy.deepcopy(v) for _, v, _ in srcs]
    if any(isinstance(v, (list, dict)) for v in vals):
        return None
    lines, out = [], []
    funcs = ""

    def show():
        lines.append("print '#', " + ", ".join(CP_SHOW + ["c"]))
        out.append("# " + " ".join(pyref.pretty(env.get(n, UNSET)) for n in CP_SHOW + ["c"]))
        if host == "rule":
            lines.append("print '$', $")
            out.append("$ " + pyref.pretty(env["$"]))

    # build the container
    if form == "array":
        lines.append("c = [%s]" % ", ".join(texts))
        env["c"] = list(vals)
        paths = [[float(i)] for i in range(k)]
    elif form == "object":
        lines.append("c = {p0: %s, p1: %s}" % tuple(texts))
        env["c"] = {"p0": vals[0], "p1": vals[1]}
        paths = [["p0"], ["p1"]]
    elif form == "nested":
        lines.append("c = [[%s], {q: %s}, %s]" % tuple(texts))
        env["c"] = [[vals[0]], {"q": vals[1]}, vals[2]]
        paths = [[0.0, 0.0], [1.0, "q"], [2.0]]
    elif form == "inobj":
        lines.append("c = {arr: [%s, %s], n: 0}" % tuple(texts))
        env["c"] = {"arr": list(vals), "n": 0.0}
        paths = [["arr", 0.0], ["arr", 1.0]]
    elif form == "push":
        lines.append("c = [0]")
        for t in texts:
            lines.append("c.push(%s)" % t)
        env["c"] = [0.0] + list(vals)
        paths = [[float(i + 1)] for i in range(k)]
    elif form == "mk":
        funcs = "function mk(a, b) {\n return [a, b]\n}\n"
        lines.append("c = mk(%s, %s)" % tuple(texts))
        env["c"] = list(vals)
        paths = [[0.0], [1.0]]
    elif form == "param":
        # the parameters are the container: the callee overwrites / increments them and hands them back
        W = rng.choice([99.0, "w", False])
        funcs = "function chg(p0, p1) {\n p0 = %s\n p1 += 1\n p1++\n return [p0, p1]\n}\n" % pyref.literal(W)
        lines.append("c = chg(%s, %s)" % tuple(texts))
        try:
            env["c"] = [W, pyref.num(pyref.binop("+", vals[1], 1.0)) + 1.0 if not isinstance(vals[1], str) else None]
        except pyref.RuntimeErr:
            return None
        if isinstance(vals[1], str):
            return None
        paths = [[0.0], [1.0]]
    else:
        lines.append("print 'p', %s" % ", ".join(texts))
        out.append("p " + " ".join(pyref.pretty(v) for v in vals))
        lines.append("c = [%s]" % ", ".join(treeref.src_path(b, ks, rng) for b, ks in chosen))
        env["c"] = list(vals)
        paths = [[float(i)] for i in range(k)]
    show()
    # change the container, or the places the values came from
    for step in range(rng.randint(1, 3)):
        side = rng.choice(["container", "container", "place"])
        W = rng.choice([-5.0, 0.0, 123.0, "chg", True, None])
        j = rng.randrange(len(paths))
        base, keys = ("c", paths[j]) if side == "container" else chosen[j]
        pth = treeref.src_path(base, keys, rng)
        try:
            cur = treeref.read(env, base, keys)
            w = rng.random()
            if w < 0.5 or isinstance(cur, (list, dict)):
                lines.append("%s = %s" % (pth, pyref.literal(W)))
                treeref.store(env, base, keys, W)
            elif w < 0.75 and not isinstance(cur, str):
                lines.append("%s++" % pth)
                treeref.store(env, base, keys, pyref.num(cur) + 1)
            else:
                add = rng.choice([3.0, "q"])
                lines.append("%s += %s" % (pth, pyref.literal(add)))
                treeref.store(env, base, keys, pyref.binop("+", cur, add))
        except (RErr, Unspecified, pyref.RuntimeErr):
            return None
        show()
    body = "\n ".join([CP_VARS_SRC] + lines)
    if host == "rule":
        prog, inp = funcs + "{\n %s\n}" % body, json.dumps(CP_DOC)
    elif host == "begin":
        prog, inp = funcs + "BEGIN {\n %s\n}" % body, None
    else:
        prog, inp = funcs + "function host_() {\n %s\n}\nBEGIN { host_() }" % body, None
    what = "%s built from %s in %s" % (form, " / ".join(texts), host)
    assigns = sum(1 for _, _, f in srcs if f != "read")
    return prog, inp, "".join(l + "\n" for l in out), (env["$"] if host == "rule" else None), what, assigns


# ---------------------------------------------------------------- the check

class C09(Check):
    pid = "C09"
    props = ["C09_reads.v", "C09_stores.v", "C09_creates.v", "C09_incdec.v"]
    rule = ("random documents x sequences of 1-12 statements (stores of scalars and fresh containers, compound assignments, prefix / "
            "postfix ++ and --, reads) over paths of depth 0-4 rooted at $ and at set, unset, scalar and null variables, with "
            "indices in range / at the length / past the end / negative / before the start / fractional and string or numeric keys "
            "on every kind of parent; after every statement the whole document and all variables are printed and compared with a "
            "Python reference of the creation rules; rules that only read (member / index chains, conditions, arithmetic, "
            "non-mutating methods, for-in) must leave the -o document equal to the input; sharing probes (scalars copied, containers "
            "shared for element stores; length changes through an alias = F-C09-alias); 2-3 root selectors picking equal / nested / "
            "disjoint parts of one value x 1-4 writes (++, =, op=) under each root, every root printed before and after (a write "
            "made under one root is not there under the next); compound assignments whose target has a side effect (i++, ++i, "
            "n = n + 1, a function call, pop / popfirst, two indices) paired with the spelled-out a = a op b: same outcome, output "
            "and document; s = R.sort() for every length 0-20 (numbers, strings, mixed), R.split(','), R.pluck(...) with R a variable, a "
            "member, a parameter, a member of the input document or its root, followed by 1-3 changes (element store at any position "
            "incl. negative / at / past the end, ++, --, +=, push, pop, popfirst, member stores) of the result, of the receiver, or of "
            "both in turn: both printed after every change, and the final document compared; 1-3 expressions that name a place -- x = v, "
            "o.k = v, l[i] = v, $.m = $.m * 2, op=, ++x, a parenthesised or chained assignment, a plain read; variables, members, elements, "
            "members of the document, missing ones -- used as elements of an array literal, values of an object literal, nested literals, "
            "arguments of push / of a function that returns them in an array / of a function that overwrites its parameters / of print, "
            "then 1-3 stores, ++ or op= into the container or into the places: variables, container and document printed after every step "
            "(the container holds copies).  non-trivial = a store that creates an "
            "intermediate container, or a read of a missing location followed by a dump")

    def generate(self, rng, tier):
        cases = []
        self.actual = {}
        n = 500 if tier == "quick" else 12000
        for i in range(n):
            doc = rand_doc(rng, 3) if rng.random() < 0.7 else {k: rand_doc(rng, 2) for k in rng.sample(KEYS[:7], rng.randint(1, 4))}
            form = "beginfile" if isinstance(doc, list) or rng.random() < 0.5 else "rule"
            prog, pieces, s = build_seq(rng, doc, form, rng.randint(1, 12))
            cid = "s%d" % i
            inp = json.dumps(doc, ensure_ascii=False)
            meta = {"kind": "seq", "prog": prog, "input": inp, "pieces": pieces, "error": s.error_at is not None,
                    "final": None if s.error_at is not None else s.env["$"]}
            cases.append(Case(cid, simple_run(cid, prog, [inp]), meta, s.creates or s.read_missing))
        n = 250 if tier == "quick" else 5000
        k = 0
        while k < n:
            doc = rand_doc(rng, 3) if rng.random() < 0.5 else [rand_doc(rng, 2) for _ in range(rng.randint(1, 4))]
            per_el = rng.random() < 0.6
            rp = read_program(rng, doc, per_el)
            if rp is None:
                continue
            prog, exp = rp
            cid = "r%d" % k
            k += 1
            inp = json.dumps(doc, ensure_ascii=False)
            cases.append(Case(cid, simple_run(cid, prog, [inp]), {"kind": "reads", "prog": prog, "input": inp, "stdout": exp}, True))
        # several root selectors picking (mostly overlapping) parts of one value; writes under one root stay there
        n = 260 if tier == "quick" else 5000
        k = 0
        while k < n:
            sc = selectors_case(rng)
            if sc is None:
                continue
            prog, sels, inp, exp, overlap = sc
            cid = "m%d" % k
            k += 1
            cases.append(Case(cid, simple_run(cid, prog, [inp], sels), {"kind": "selectors", "prog": prog, "selectors": sels, "input": inp,
                                                                        "stdout": exp}, overlap))
        # compound assignment with a side effect in the target, next to its spelled-out form
        reps = 4 if tier == "quick" else 60
        k = 0
        for rep in range(reps):
            for kf, setup, target, op, rhs, show in compound_pairs(rng):
                host = rng.choice(["begin", "rule"])
                pair = compound_programs(kf, setup, target, op, rhs, show, host)
                for which, (prog, inp, stmt) in zip(("compound", "spelled"), pair):
                    cid = "c%d%s" % (k, which[0])
                    cases.append(Case(cid, simple_run(cid, prog, [inp] if inp is not None else []),
                                      {"kind": "compound", "pair": k, "which": which, "stmt": stmt, "prog": prog, "input": inp}, True))
                k += 1
        reps = 3 if tier == "quick" else 40
        for rep in range(reps):
            for j, (prog, inp, exp, tags, slice_out) in enumerate(sharing_probes(rng)):
                cid = "p%d_%d" % (rep, j)
                meta = {"kind": "probe", "prog": prog, "input": inp, "expect": exp, "slice_stdout": slice_out}
                cases.append(Case(cid, simple_run(cid, prog, [inp] if inp is not None else []), meta, True, tags))
        # containers returned by sort / split / pluck are independent of their receiver
        k = 0
        reps = 2 if tier == "quick" else 30
        combos = [("sort", n, who) for n in range(0, 21) for who in ("result", "receiver", "both")] * reps
        combos += [(m_, n, who) for m_ in ("split", "pluck") for n in range(0, 7) for who in ("result", "receiver", "both")] * reps
        for method, n, who in combos:
            for _ in range(20):
                mc = method_result_case(rng, n, method, who)
                if mc is not None:
                    break
            else:
                continue
            prog, inp, exp, final, what = mc
            cid = "t%d" % k
            k += 1
            cases.append(Case(cid, simple_run(cid, prog, [inp] if inp is not None else []),
                              {"kind": "methres", "prog": prog, "input": inp, "stdout": exp, "final": final, "what": what}, n > 0))
        # scalars that reach a container as the value of an assignment / compound assignment / ++x / read, as array elements,
        # object values, arguments: the container holds copies
        n = 330 if tier == "quick" else 6000
        k = 0
        while k < n:
            cc = cp_case(rng, CP_FORMS[k % len(CP_FORMS)] if k < 6 * len(CP_FORMS) else None)
            if cc is None:
                continue
            prog, inp, exp, final, what, assigns = cc
            cid = "e%d" % k
            k += 1
            cases.append(Case(cid, simple_run(cid, prog, [inp] if inp is not None else []),
                              {"kind": "exprcopy", "prog": prog, "input": inp, "stdout": exp, "final": final, "what": what}, assigns > 0))
        return cases

    def oracle(self, case, impl):
        m = case.meta
        kind = m.get("kind")
        if kind is None or impl.outcome in ("timeout", "noresult"):
            return None
        if kind == "seq":
            want_outcome = "runtime" if m["error"] else "ok"
            why = check_seq_stdout(impl.stdout, m["pieces"], m["error"])
            if why:
                return why
            if impl.outcome != want_outcome:
                return "outcome %s, reference %s (after statement %d)" % (impl.outcome, want_outcome, len(m["pieces"]) - 1)
            if not m["error"]:
                return self.cmp_json(impl.json, m["final"], "final document")
            return None
        if kind == "reads":
            if m["stdout"] is None:
                if impl.outcome != "runtime":
                    return "index before the start of an array: reference says runtime error, outcome %s" % impl.outcome
                return None
            if impl.outcome != "ok":
                return "a rule that only reads failed: %s" % impl.outcome
            if impl.stdout.decode("utf-8", "replace") != m["stdout"]:
                return "reads printed %r, reference %r" % (impl.stdout[:120], m["stdout"][:120])
            try:
                want = treeref.loads(m["input"])
            except treeref.BadJson:
                return None
            return self.cmp_json(impl.json, want, "document after reads only", exact=True)
        if kind == "selectors":
            got = impl.stdout.decode("utf-8", "replace")
            if impl.outcome != "ok" or got != m["stdout"]:
                w, g = m["stdout"].splitlines(), got.splitlines()
                j = 0
                while j < min(len(w), len(g)) and w[j] == g[j]:
                    j += 1
                return "selectors %s: every root is a value of its own; line %d: reference %r, implementation %r (%s)" % (
                    " ".join("-r '%s'" % x for x in m["selectors"]), j + 1, w[j] if j < len(w) else "<end>", g[j] if j < len(g) else "<end>", impl.outcome)
            return None
        if kind == "exprcopy":
            got = impl.stdout.decode("utf-8", "replace")
            if impl.outcome != "ok" or got != m["stdout"]:
                w, g = m["stdout"].splitlines(), got.splitlines()
                j = 0
                while j < min(len(w), len(g)) and w[j] == g[j]:
                    j += 1
                return "%s: the container holds copies of the scalars; line %d: reference %r, implementation %r (%s)" % (
                    m["what"], j + 1, w[j] if j < len(w) else "<end>", g[j] if j < len(g) else "<end>", impl.outcome)
            if m["final"] is not None:
                return self.cmp_json(impl.json, m["final"], "document after changes to the container / the places its values came from")
            return None
        if kind == "methres":
            got = impl.stdout.decode("utf-8", "replace")
            if impl.outcome != "ok" or got != m["stdout"]:
                w, g = m["stdout"].splitlines(), got.splitlines()
                j = 0
                while j < min(len(w), len(g)) and w[j] == g[j]:
                    j += 1
                return "%s: the result of the method and its receiver are separate containers; line %d: reference %r, implementation %r (%s)" % (
                    m["what"], j + 1, w[j] if j < len(w) else "<end>", g[j] if j < len(g) else "<end>", impl.outcome)
            if m["final"] is not None:
                return self.cmp_json(impl.json, m["final"], "document after changes to the method's result / receiver")
            return None
        if kind == "probe":
            exp = m["expect"]
            self.actual[case.id] = impl.stdout
            if impl.outcome != "ok":
                return "sharing probe failed to run: %s" % impl.outcome
            if exp is None:
                return self.cmp_json(impl.json, treeref.loads(m["input"]), "document after scalar copies were changed", exact=True)
            if isinstance(exp, (list, tuple)) and exp[0] == "json":
                return self.cmp_json(impl.json, exp[1], "document after stores through a second reference")
            if impl.stdout.decode("utf-8", "replace") != exp:
                return "printed %r, required %r" % (impl.stdout.decode("utf-8", "replace"), exp)
        return None

    def cmp_json(self, field, want, what, exact=False):
        if field in ("!", "P", "~", "?"):
            return "%s: no JSON (%s)" % (what, field)
        try:
            got = treeref.loads(unhx(field))
        except treeref.BadJson as e:
            return "%s: invalid JSON (%s)" % (what, e)
        if not (treeref.same if exact else treeref.samenum)(got, want):
            return "%s is %s, reference %s" % (what, clip(json.dumps(got)), clip(json.dumps(want)))
        return None

    def extra(self, ctx):
        """`a op= b` and `a = a op b` side by side: same outcome, same output, same document"""
        pairs = {}
        for c in ctx["cases"]:
            if c.meta.get("kind") == "compound":
                pairs.setdefault(c.meta["pair"], {})[c.meta["which"]] = c
        viol = []
        for k, pr in sorted(pairs.items()):
            if len(pr) != 2:
                continue
            a, b = RunRes(ctx["impl"].get(pr["compound"].id, [])), RunRes(ctx["impl"].get(pr["spelled"].id, []))
            if a.outcome in ("timeout", "noresult", "crash") or b.outcome in ("timeout", "noresult", "crash"):
                continue
            if (a.outcome, a.stdout, a.json) != (b.outcome, b.stdout, b.json):
                c = pr["compound"]
                meta = dict(c.meta, spelled_out=pr["spelled"].meta["stmt"], spelled_out_prog=pr["spelled"].meta["prog"])
                viol.append((Case(c.id, c.line, meta, True, c.tags),
                             "`%s` gives %s %r but `%s` gives %s %r" % (c.meta["stmt"], a.outcome, a.stdout.decode("utf-8", "replace")[:120],
                                                                      pr["spelled"].meta["stmt"], b.outcome, b.stdout.decode("utf-8", "replace")[:120])))
        return viol, {"compound_pairs": len(pairs)}

    def known_finding(self, case, why):
        if "alias_length_change" in case.tags and case.meta.get("slice_stdout") is not None:
            got = self.actual.get(case.id)
            if got is not None and got.decode("utf-8", "replace") == case.meta["slice_stdout"]:
                return "F-C09-alias"
        return None


CHECK = C09()
