"""C09: assignment changes exactly the addressed location; reads never change the input."""
import json, copy
from framework import Check, Case
from jqlib import simple_run, RunRes, unhx
import pyref, treeref
from pyref import UNSET
from treeref import RErr, Unspecified, ABSENT

KEYS = ["a", "b", "c", "k", "name", "l", "o", "zz", "x y", "é"]
SCALARS = [0.0, 1.0, -2.5, 7.0, 100.0, "s", "abc", "10", "", True, False, None]
LITERALS = SCALARS + [[], {}, [1.0, 2.0], {"k": 1.0}, [[1.0], {"z": 0.0}], {"a": {"b": [True]}}]
VARS = ["v", "w", "u", "s", "n"]
INIT = {"v": {"a": {"b": 1.0}, "l": [1.0, 2.0, 3.0]}, "w": [1.0, [2.0, 3.0], {"k": 4.0}], "s": 5.0, "n": None}
INIT_SRC = "v = {a: {b: 1}, l: [1, 2, 3]}\n w = [1, [2, 3], {k: 4}]\n s = 5\n n = null"


def rand_doc(rng, depth=3):
    k = rng.random()
    if depth <= 0 or k < 0.3:
        return rng.choice([0.0, 1.0, 2.5, -3.0, 10.0, "a", "abc", "x,y", "10", "", True, False, None, "héllo", 123456789012.0])
    if k < 0.65:
        return [rand_doc(rng, depth - 1) for _ in range(rng.randint(0, 4))]
    return {rng.choice(KEYS[:8]): rand_doc(rng, depth - 1) for _ in range(rng.randint(0, 4))}


def step_member(cur, k):
    if cur is ABSENT or cur is UNSET:
        return ABSENT
    try:
        return treeref.member(cur, k)
    except (RErr, Unspecified):
        return ABSENT


def pick_key(rng, cur):
    if isinstance(cur, list):
        n = len(cur)
        w = rng.random()
        if w < 0.45 and n:
            return float(rng.randrange(n))
        if w < 0.55:
            return float(n)
        if w < 0.65:
            return float(n + rng.randint(1, 3))
        if w < 0.8 and n:
            return float(-rng.randint(1, n))
        if w < 0.84:
            return float(-(n + 1))
        if w < 0.96:
            return rng.choice([0.5, 1.7, -0.5, 2.5, -1.5]) if n else rng.choice([0.5, 1.7])
        return rng.choice(["zz", "a"])
    if isinstance(cur, dict):
        w = rng.random()
        if w < 0.55 and cur:
            return rng.choice(sorted(cur))
        if w < 0.9:
            return rng.choice(KEYS)
        return rng.choice([0.0, 1.0, 1.7, -1.0])
    if rng.random() < 0.5:
        return rng.choice(KEYS)
    return rng.choice([0.0, 1.0, 2.0, 3.0, -1.0, 1.7])


def pick_path(rng, env, bases, depths=(0, 1, 1, 2, 2, 3, 4)):
    base = rng.choice(bases)
    cur = env.get(base, UNSET)
    keys = []
    for _ in range(rng.choice(depths)):
        if cur is UNSET:
            k = rng.choice([rng.choice(KEYS), float(rng.randint(0, 3))])
            cur = ABSENT
        else:
            k = pick_key(rng, cur if cur is not ABSENT else None)
            cur = step_member(cur, k)
        keys.append(k)
    return base, keys


# ---------------------------------------------------------------- store / read sequences

class Seq:
    """a statement sequence with the reference's expectation of what is printed after every statement"""

    def __init__(self, rng, doc, form):
        self.r = rng
        self.env = copy.deepcopy(INIT)
        self.env["$"] = copy.deepcopy(doc)
        self.form = form
        self.stmts = []         # source lines
        self.expect = []        # per executed statement: (doc tree, [var lines])
        self.error_at = None
        self.creates = False
        self.read_missing = False

    def snapshot(self):
        e = self.env
        return (copy.deepcopy(e["$"]), [pyref.pretty(e.get(x, UNSET)) for x in VARS + ["r"]])

    def add(self):
        """generate one statement; returns "added", "error" (the sequence ends with a runtime error) or "none" """
        for _ in range(30):
            saved = copy.deepcopy(self.env)
            self.pending_read = None
            try:
                src = self.one()
            except Unspecified:
                self.env = saved
                continue
            except RErr:
                self.env = saved
                if self.r.random() < 0.88:
                    continue            # most sequences go on; some end in the documented runtime error
                self.stmts.append(self.last_src)
                self.error_at = len(self.stmts) - 1
                return "error"
            self.stmts.append(src)
            self.expect.append(self.snapshot())
            return "added"
        return "none"

    def missing_before(self, base, keys):
        cur = self.env.get(base, UNSET)
        if cur is UNSET and keys:
            return len(keys) > 1
        for i, k in enumerate(keys):
            cur = step_member(cur, k)
            if cur is ABSENT:
                return i < len(keys) - 1
        return False

    def one(self):
        r = self.r
        env = self.env
        kind = r.choice(["store", "store", "store", "store", "op", "op", "incdec", "incdec", "read", "read"])
        bases = ["$", "$", "$", "v", "w", "u", "s", "n"]
        base, keys = pick_path(r, env, bases)
        p = treeref.src_path(base, keys, r)
        if kind == "store":
            val = copy.deepcopy(r.choice(LITERALS if r.random() < 0.6 else SCALARS))
            self.last_src = "%s = %s" % (p, pyref.literal(val))
            created = self.missing_before(base, keys)
            treeref.store(env, base, keys, val)
            self.creates |= created
            return self.last_src
        if kind == "op":
            op = r.choice(["+", "-", "*", "/", "+"])
            rv = r.choice([1.0, 2.0, 3.0, 0.5, "x", "2", 10.0, True]) if op == "+" else r.choice([1.0, 2.0, 3.0, 0.5, 4.0, "2"])
            self.last_src = "%s %s= %s" % (p, op, pyref.literal(rv))
            created = self.missing_before(base, keys)
            old = treeref.read(env, base, keys)
            try:
                new = pyref.binop(op, old, rv)
            except pyref.RuntimeErr as e:
                raise RErr(str(e))
            treeref.store(env, base, keys, new)
            self.creates |= created
            return self.last_src
        if kind == "incdec":
            op = r.choice(["++", "--"])
            prefix = r.random() < 0.5
            self.last_src = "r = %s%s" % (op, p) if prefix else "r = %s%s" % (p, op)
            created = self.missing_before(base, keys)
            old = pyref.num(treeref.read(env, base, keys))
            new = old + 1 if op == "++" else old - 1
            treeref.store(env, base, keys, new)
            env["r"] = new if prefix else old
            self.creates |= created
            return self.last_src
        # read: the value is printed by the statement itself (no alias is kept)
        if base in ("u",) and keys:
            raise Unspecified()             # indexing an unset variable turns it into a container: not a statement of C09
        self.last_src = "print '=', %s" % p
        val = treeref.read(env, base, keys)
        self.read_missing |= self.missing_before(base, keys) or (val is None and bool(keys))
        self.pending_read = pyref.pretty(val)
        return self.last_src


def build_seq(rng, doc, form, n):
    s = Seq(rng, doc, form)
    reads = []
    for i in range(n):
        st = s.add()
        if st == "added":
            reads.append(s.pending_read)
        elif st == "error":
            break
    lines = [INIT_SRC]
    for i, st in enumerate(s.stmts):
        lines.append(st)
        lines.append("print '#%d'\n print json($)\n print '~'\n print v\n print w\n print u\n print s\n print n\n print r" % i)
    body = "\n ".join(lines)
    prog = ("BEGINFILE { %s }" if form == "beginfile" else "{ %s }") % body
    # expected stdout in pieces
    pieces = []
    for i, (doc_after, varlines) in enumerate(s.expect):
        pieces.append({"read": reads[i], "doc": doc_after, "vars": varlines})
    return prog, pieces, s


def check_seq_stdout(stdout, pieces, error_expected):
    """compare the implementation's output with the reference, statement by statement"""
    try:
        text = stdout.decode("utf-8")
    except UnicodeDecodeError:
        return "output is not UTF-8"
    pos = 0
    for i, pc in enumerate(pieces):
        if pc["read"] is not None:
            want = "= " + pc["read"] + "\n"
            if not text.startswith(want, pos):
                return "statement %d (read): printed %r, reference %r" % (i, text[pos:pos + 60], want)
            pos += len(want)
        head = "#%d\n" % i
        if not text.startswith(head, pos):
            return "statement %d: output ends or differs here: %r" % (i, text[pos:pos + 60])
        pos += len(head)
        end = text.find("\n~\n", pos)
        if end < 0:
            return "statement %d: no document dump" % i
        try:
            got = treeref.loads(text[pos:end])
        except treeref.BadJson as e:
            return "statement %d: document dump is not JSON (%s)" % (i, e)
        if not treeref.samenum(got, pc["doc"]):
            return "statement %d: document is %s, reference %s" % (i, clip(json.dumps(got)), clip(json.dumps(pc["doc"])))
        pos = end + 3
        want = "".join(l + "\n" for l in pc["vars"])
        if not text.startswith(want, pos):
            return "statement %d: variables v w u s n r are %r, reference %r" % (i, text[pos:pos + len(want) + 20], want)
        pos += len(want)
    rest = text[pos:]
    if rest:
        return "output after the last %s statement: %r" % ("successful" if error_expected else "", rest[:80])
    return None


def clip(s, n=200):
    return s if len(s) <= n else s[:n - 3] + "..."


# ---------------------------------------------------------------- pure reads

def read_program(rng, doc, per_element):
    """(program, expected stdout or None for a runtime error) of a rule that only reads; None if outside the family"""
    items = doc if (per_element and isinstance(doc, list)) else [doc]
    names = iter(["x", "y", "z", "q", "t", "h", "x2", "y2"])
    stmts = []          # (source, keys, prints)
    for _ in range(rng.randint(1, 6)):
        env = {"$": rng.choice(items) if items else None}
        base, keys = pick_path(rng, env, ["$"], depths=(1, 1, 2, 2, 3, 4))
        p = treeref.src_path("$", keys, rng)
        form = rng.choice(["assign", "print", "print", "cond", "arith", "method", "forin"])
        if form == "assign":
            stmts.append(("%s = %s" % (next(names), p), keys, False))
        elif form == "print":
            stmts.append(("print '=', %s" % p, keys, True))
        elif form == "cond":
            stmts.append(("if (%s) { c++ }" % p, keys, False))
        elif form == "arith":
            stmts.append(("%s = %s + 1" % (next(names), p), keys, False))
        elif form == "method":
            # non-mutating methods, called only where the receiver has the right kind
            stmts.append(("t_ = %s\n if (t_ is array) { m1 = t_.length()\n m2 = t_.sort() }\n if (t_ is object) { m3 = t_.length()\n m4 = t_.pluck('a', 'zz') }\n"
                          " if (t_ is string) { m5 = t_.length()\n m6 = t_.upper()\n m7 = t_.split(',') }\n if (t_ is number) { m8 = t_.floor() }" % p, keys, False))
        else:
            stmts.append(("t_ = %s\n if (t_ is array || t_ is object || t_ is string) { for (e_, i_ in t_) { cnt++ } }" % p, keys, False))
    expected = ""
    failed = False
    for item in items:
        env = {"$": item}
        for src, keys, prints in stmts:
            try:
                val = treeref.read(env, "$", keys)
            except RErr:
                failed = True
                break
            except Unspecified:
                return None
            if prints:
                expected += "= " + pyref.pretty(val) + "\n"
        if failed:
            break
    body = "\n ".join(src for src, _, _ in stmts)
    prog = ("{ %s }" if per_element else "BEGINFILE { %s }") % body
    return prog, (None if failed else expected)


# ---------------------------------------------------------------- sharing probes

def sharing_probes(rng):
    """(program, input or None, expected stdout, tags, slice-semantics stdout or None)"""
    X = rng.choice([1.0, 5.0, "s", True, 2.5])
    Y = rng.choice([9.0, "t", False, 0.0])
    x, y = pyref.literal(X), pyref.literal(Y)
    px, py_ = pyref.pretty(X), pyref.pretty(Y)
    qx, qy = pyref.pretty(X, True), pyref.pretty(Y, True)
    n = rng.randint(1, 4)
    arr = [float(i + 1) for i in range(n)]
    la = pyref.literal(arr)
    i = rng.randrange(n)

    def pa(a):
        return pyref.pretty(a)

    def set_(a, k, v):
        b = list(a)
        b[k] = v
        return b
    P = []
    # scalars are copied
    P.append(("BEGIN { a = %s\n b = a\n b = %s\n print a, b }" % (x, y), None, "%s %s\n" % (px, py_), ("scalar_copy",), None))
    P.append(("BEGIN { a = 5\n b = a\n b++\n a += 10\n print a, b }", None, "15 6\n", ("scalar_copy",), None))
    P.append(("BEGIN { o = {k: %s}\n c = o.k\n c = %s\n print o.k, c }" % (x, y), None, "%s %s\n" % (px, py_), ("scalar_copy",), None))
    P.append(("BEGIN { arr = [%s]\n c = arr[0]\n c = %s\n print arr[0], c }" % (x, y), None, "%s %s\n" % (px, py_), ("scalar_copy",), None))
    P.append(("BEGIN { s = %s\n o = {}\n o.k = s\n s = %s\n print o.k, s }" % (x, y), None, "%s %s\n" % (px, py_), ("scalar_copy",), None))
    P.append(("BEGIN { s = %s\n arr = [0]\n arr[0] = s\n s = %s\n print arr[0], s }" % (x, y), None, "%s %s\n" % (px, py_), ("scalar_copy",), None))
    P.append(("BEGIN { s = %s\n arr = [s]\n o = {k: s}\n s = %s\n print arr[0], o.k, s }" % (x, y), None, "%s %s %s\n" % (px, px, py_), ("scalar_copy",), None))
    P.append(("function f(p) { p = %s\n return p }\nBEGIN { a = %s\n r = f(a)\n print a, r }" % (y, x), None, "%s %s\n" % (px, py_), ("scalar_copy",), None))
    P.append(("function f(p) { p++\n return p }\nBEGIN { a = 1\n r = f(a)\n print a, r }", None, "1 2\n", ("scalar_copy",), None))
    P.append(("{ c = $.k\n c = %s\n d = $.l[0]\n d++ }" % y, json.dumps({"k": 1, "l": [1, 2]}), None, ("scalar_copy", "doc"), None))
    # a missing member passed as an argument, returned, or copied into a variable is a plain null there:
    # assigning to the parameter / variable never creates the member in the document
    DOCM = json.dumps({"a": {}, "n": 1, "l": [1]})
    P.append(("function def(x, d) { if (x == null) { x = d }\n return x }\n{ print def($.a.limit, %s) }" % y, DOCM, None, ("scalar_copy", "doc", "missing_arg"), None))
    P.append(("function f(p) { p = %s\n q = p }\n{ f($.nope)\n f($.a.deep.er)\n f($[5])\n f($.a[2])\n f($.l[3]) }" % x, DOCM, None, ("scalar_copy", "doc", "missing_arg"), None))
    P.append(("function f(p) { p++\n p += 2\n return p }\n{ r = f($.a.cnt)\n t = f($.n)\n u = f($.l[7]) }", DOCM, None, ("scalar_copy", "doc", "missing_arg"), None))
    P.append(("function f(p, q) { q = %s\n return q }\n{ f(1)\n f($.a.b, $.a.c) }" % x, DOCM, None, ("scalar_copy", "doc", "missing_arg"), None))
    P.append(("function g(p) { return p }\n{ r = g($.a.none)\n r = %s\n v = $.a.other\n v = %s\n w = [$.zz]\n w[0] = 1 }" % (x, y), DOCM, None, ("scalar_copy", "doc", "missing_arg"), None))
    # containers are shared: element stores
    P.append(("BEGIN { a = %s\n b = a\n b[%d] = %s\n print a, b }" % (la, i, x), None, "%s %s\n" % (pa(set_(arr, i, X)), pa(set_(arr, i, X))), ("shared_store",), None))
    P.append(("BEGIN { a = %s\n b = a\n a[%d] = %s\n print a, b }" % (la, i, x), None, "%s %s\n" % (pa(set_(arr, i, X)), pa(set_(arr, i, X))), ("shared_store",), None))
    P.append(("BEGIN { o = {k: 1}\n p = o\n p.k = %s\n p.n = %s\n print o, p }" % (x, y), None,
              "{\"k\": %s, \"n\": %s} {\"k\": %s, \"n\": %s}\n" % (qx, qy, qx, qy), ("shared_store",), None))
    P.append(("BEGIN { o = {}\n a = %s\n o.inner = a\n a[%d] = %s\n print o }" % (la, i, x), None, "{\"inner\": %s}\n" % pa(set_(arr, i, X)), ("shared_store",), None))
    P.append(("BEGIN { a = %s\n o = {inner: a}\n o.inner[%d] = %s\n print a }" % (la, i, x), None, "%s\n" % pa(set_(arr, i, X)), ("shared_store",), None))
    P.append(("BEGIN { a = [[1], [2]]\n b = a[0]\n b[0] = %s\n c = a[1]\n a[1][0] = %s\n print a, c }" % (x, y), None, "[[%s], [%s]] [%s]\n" % (qx, qy, qy), ("shared_store",), None))
    P.append(("BEGIN { a = [%s, 0]\n b = [a, a]\n a[1] = %s\n b[0][0] = 7\n print b }" % (x, y), None, "[[7, %s], [7, %s]]\n" % (qy, qy), ("shared_store",), None))
    P.append(("function f(p) { p[%d] = %s }\nBEGIN { a = %s\n f(a)\n print a }" % (i, x, la), None, "%s\n" % pa(set_(arr, i, X)), ("shared_store", "param"), None))
    P.append(("function f(p) { p.k = %s\n p.n = 1 }\nBEGIN { o = {k: 0}\n f(o)\n print o }" % x, None, "{\"k\": %s, \"n\": 1}\n" % qx, ("shared_store", "param"), None))
    P.append(("BEGIN { arr = [{k: 1}, {k: 2}]\n for (e in arr) { e.k = %s }\n print arr }" % x, None, "[{\"k\": %s}, {\"k\": %s}]\n" % (qx, qx), ("shared_store", "loopvar"), None))
    P.append(("BEGIN { arr = [[1], [2, 3]]\n for (e in arr) { e[0] = %s }\n print arr }" % x, None, "[[%s], [%s, 3]]\n" % (qx, qx), ("shared_store", "loopvar"), None))
    P.append(("BEGIN { o = {a: [1], b: {c: 2}}\n for (k, e in o) { e[0] = %s\n e.c = 5 }\n print o.b }" % x, None, None, ("skip",), None))
    P.append(("{ t = $.a\n t.k = %s\n u = $.l\n u[0] = %s }" % (x, y), json.dumps({"a": {"k": 0}, "l": [1, 2]}),
              ("json", {"a": {"k": X}, "l": [Y, 2.0]}), ("shared_store", "doc"), None))
    P.append(("{ $.b = $.a\n $.b.k = %s }" % x, json.dumps({"a": {"k": 0}}), ("json", {"a": {"k": X}, "b": {"k": X}}), ("shared_store", "doc"), None))
    # length-changing operations through an alias: known finding F-C09-alias
    T = ("alias_length_change",)
    P.append(("BEGIN { a = %s\n b = a\n a.push(%s)\n print b }" % (la, x), None, "%s\n" % pa(arr + [X]), T, "%s\n" % pa(arr)))
    P.append(("BEGIN { a = %s\n b = a\n b.push(%s)\n print a }" % (la, x), None, "%s\n" % pa(arr + [X]), T, "%s\n" % pa(arr)))
    P.append(("BEGIN { a = %s\n b = a\n a.pop()\n print b }" % la, None, "%s\n" % pa(arr[:-1]), T, "%s\n" % pa(arr)))
    P.append(("BEGIN { a = %s\n b = a\n a.popfirst()\n print b }" % la, None, "%s\n" % pa(arr[1:]), T, "%s\n" % pa(arr)))
    P.append(("BEGIN { a = %s\n b = a\n a[%d] = %s\n print b }" % (la, n + 1, x), None, "%s\n" % pa(arr + [None, X]), T, "%s\n" % pa(arr)))
    P.append(("BEGIN { o = {l: %s}\n b = o.l\n b.push(%s)\n print o }" % (la, x), None, "{\"l\": %s}\n" % pa(arr + [X]), T, "{\"l\": %s}\n" % pa(arr)))
    P.append(("function f(p) { p.push(%s) }\nBEGIN { a = %s\n f(a)\n print a }" % (x, la), None, "%s\n" % pa(arr + [X]), T, "%s\n" % pa(arr)))
    P.append(("function f(p) { p[%d] = %s }\nBEGIN { a = %s\n f(a)\n print a }" % (n, x, la), None, "%s\n" % pa(arr + [X]), T, "%s\n" % pa(arr)))
    return [p for p in P if "skip" not in p[3]]


# ---------------------------------------------------------------- the check

class C09(Check):
    pid = "C09"
    props = ["C09_reads.v", "C09_stores.v", "C09_creates.v", "C09_incdec.v"]
    rule = ("random documents x sequences of 1-12 statements (stores of scalars and fresh containers, compound assignments, prefix / "
            "postfix ++ and --, reads) over paths of depth 0-4 rooted at $ and at set, unset, scalar and null variables, with "
            "indices in range / at the length / past the end / negative / before the start / fractional and string or numeric keys "
            "on every kind of parent; after every statement the whole document and all variables are printed and compared with a "
            "Python reference of the creation rules; rules that only read (member / index chains, conditions, arithmetic, "
            "non-mutating methods, for-in) must leave the -o document equal to the input; sharing probes (scalars copied, containers "
            "shared for element stores; length changes through an alias = F-C09-alias).  non-trivial = a store that creates an "
            "intermediate container, or a read of a missing location followed by a dump")

    def generate(self, rng, tier):
        cases = []
        self.actual = {}
        n = 500 if tier == "quick" else 12000
        for i in range(n):
            doc = rand_doc(rng, 3) if rng.random() < 0.7 else {k: rand_doc(rng, 2) for k in rng.sample(KEYS[:7], rng.randint(1, 4))}
            form = "beginfile" if isinstance(doc, list) or rng.random() < 0.5 else "rule"
            prog, pieces, s = build_seq(rng, doc, form, rng.randint(1, 12))
            cid = "s%d" % i
            inp = json.dumps(doc, ensure_ascii=False)
            meta = {"kind": "seq", "prog": prog, "input": inp, "pieces": pieces, "error": s.error_at is not None,
                    "final": None if s.error_at is not None else s.env["$"]}
            cases.append(Case(cid, simple_run(cid, prog, [inp]), meta, s.creates or s.read_missing))
        n = 250 if tier == "quick" else 5000
        k = 0
        while k < n:
            doc = rand_doc(rng, 3) if rng.random() < 0.5 else [rand_doc(rng, 2) for _ in range(rng.randint(1, 4))]
            per_el = rng.random() < 0.6
            rp = read_program(rng, doc, per_el)
            if rp is None:
                continue
            prog, exp = rp
            cid = "r%d" % k
            k += 1
            inp = json.dumps(doc, ensure_ascii=False)
            cases.append(Case(cid, simple_run(cid, prog, [inp]), {"kind": "reads", "prog": prog, "input": inp, "stdout": exp}, True))
        reps = 3 if tier == "quick" else 40
        for rep in range(reps):
            for j, (prog, inp, exp, tags, slice_out) in enumerate(sharing_probes(rng)):
                cid = "p%d_%d" % (rep, j)
                meta = {"kind": "probe", "prog": prog, "input": inp, "expect": exp, "slice_stdout": slice_out}
                cases.append(Case(cid, simple_run(cid, prog, [inp] if inp is not None else []), meta, True, tags))
        return cases

    def oracle(self, case, impl):
        m = case.meta
        kind = m.get("kind")
        if kind is None or impl.outcome in ("timeout", "noresult"):
            return None
        if kind == "seq":
            want_outcome = "runtime" if m["error"] else "ok"
            why = check_seq_stdout(impl.stdout, m["pieces"], m["error"])
            if why:
                return why
            if impl.outcome != want_outcome:
                return "outcome %s, reference %s (after statement %d)" % (impl.outcome, want_outcome, len(m["pieces"]) - 1)
            if not m["error"]:
                return self.cmp_json(impl.json, m["final"], "final document")
            return None
        if kind == "reads":
            if m["stdout"] is None:
                if impl.outcome != "runtime":
                    return "index before the start of an array: reference says runtime error, outcome %s" % impl.outcome
                return None
            if impl.outcome != "ok":
                return "a rule that only reads failed: %s" % impl.outcome
            if impl.stdout.decode("utf-8", "replace") != m["stdout"]:
                return "reads printed %r, reference %r" % (impl.stdout[:120], m["stdout"][:120])
            try:
                want = treeref.loads(m["input"])
            except treeref.BadJson:
                return None
            return self.cmp_json(impl.json, want, "document after reads only", exact=True)
        if kind == "probe":
            exp = m["expect"]
            self.actual[case.id] = impl.stdout
            if impl.outcome != "ok":
                return "sharing probe failed to run: %s" % impl.outcome
            if exp is None:
                return self.cmp_json(impl.json, treeref.loads(m["input"]), "document after scalar copies were changed", exact=True)
            if isinstance(exp, (list, tuple)) and exp[0] == "json":
                return self.cmp_json(impl.json, exp[1], "document after stores through a second reference")
            if impl.stdout.decode("utf-8", "replace") != exp:
                return "printed %r, required %r" % (impl.stdout.decode("utf-8", "replace"), exp)
        return None

    def cmp_json(self, field, want, what, exact=False):
        if field in ("!", "P", "~", "?"):
            return "%s: no JSON (%s)" % (what, field)
        try:
            got = treeref.loads(unhx(field))
        except treeref.BadJson as e:
            return "%s: invalid JSON (%s)" % (what, e)
        if not (treeref.same if exact else treeref.samenum)(got, want):
            return "%s is %s, reference %s" % (what, clip(json.dumps(got)), clip(json.dumps(want)))
        return None

    def known_finding(self, case, why):
        if "alias_length_change" in case.tags and case.meta.get("slice_stdout") is not None:
            got = self.actual.get(case.id)
            if got is not None and got.decode("utf-8", "replace") == case.meta["slice_stdout"]:
                return "F-C09-alias"
        return None


CHECK = C09()
