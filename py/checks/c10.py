"""C10: output is a deterministic function of program, selectors and input bytes."""
import os, json, subprocess, tempfile, shutil, time, gzip, zlib, bz2, lzma
from concurrent.futures import ThreadPoolExecutor
from framework import Check, Case
from jqlib import simple_run, run_case, RunRes, JQAWK, JQH, BUILD, _run_binary, unhx
import genprog

KEYPOOL = ["b", "a", "c", "zeta", "alpha", "k", "name", "id", "Z", "A", "m", "x1", "x10", "x2", "\u00e9", "_", "key with space", "0", "10", "9"]

UNRELATED = [
    "BEGIN { print [1, 2, 3].length() }",
    "BEGIN { print [1, 2].length(), 'abc'.length(), {a: 1}.length() }",
    "BEGIN { x = []\n x.length = 5\n print x.length }",
    "BEGIN { o = {}\n o.length = 7\n o.pluck = 1\n print o }",
    "BEGIN { s = 'abc'\n s.upper = 3\n print s.upper() }",
    "BEGIN { a = [3, 1, 2]\n print a.sort(), a.contains(2), a.pop(), a.popfirst() }",
    "BEGIN { a = []\n a.push(1)\n a.push([2])\n print a }",
    "BEGIN { print 'a,b'.split(','), 'x'.upper(), 'Y'.lower(), (2.5).floor(), (2.5).ceil(), (2.5).round() }",
    "BEGIN { f = [1, 2, 3, 4].length\n print f() }",
    "BEGIN { o = {q: 1}\n p = o.pluck('q', 'pluck', 'length')\n print p.length() }",
    "{ print $.length() }",
    "BEGIN { n = 5\n n.floor = 1\n print n.floor() }",
    "BEGIN { print {b: 1, a: 2}\n for (k in {z: 1, y: 2, x: 3}) print k }",
    "BEGIN { x = 'a' ~ /a/\n y = 'ab' ~ 'b$'\n print x, y }",
    "BEGIN { print 1/0 }",
    "BEGIN { print ( }",
    # runs that fail half way through producing output (anything buffered or pooled across runs shows in the next run)
    "BEGIN { printf('stale %s and %f\\n', 'text', null) }",
    "BEGIN { printf('left over|%5s|%d', 'ab', 1) }",
    "BEGIN { printf('%v %v %s', [1, 2], {a: 1}, 3) }",
    "BEGIN { printf('abc %') }",
    "BEGIN { printf('only one %s %s', 'arg') }",
    "{ printf('%s is %f\\n', $, $) }",
    "BEGIN { print 'before', 1/0 }",
    "BEGIN { print json([1, {a: 2}]), json(json) }",
    "BEGIN { a = [1, 2]\n print a, a.nope() }",
    "BEGIN { printf('%99999999s', 'x') }",
]

PRINTF_PROGS = [
    "{ printf('%s\\n', $ + '') }", "{ printf('%v|%5v|%-5v|\\n', $, $, $) }", "BEGIN { printf('%f %s\\n', 1.5, 'z')\n printf('%%\\n') }",
    "BEGIN { printf('a')\n printf('b')\n print 'c' }", "{ printf('%v', $) } END { print ''\n print 'done' }",
    "BEGIN { printf('%05f|%-8s|%3v\\n', 2.5, 'ab', null) }", "{ print\n printf('%v\\n', [$, $]) }",
    "BEGIN { printf('') \n printf('x\\n') }",
]

METHOD_PROGS = [
    # the witness of the cross-run receiver leak and variations: method values copied by pluck, called later
    "BEGIN { o = {}\n r = o.pluck('pluck')\n o = [7]\n for (k, f in r) { q = f('length') }\n for (k, g in q) { print g() } }",
    "BEGIN { o = {}\n r = o.pluck('pluck', 'length')\n print r\n for (k, f in r) { print k, f('length', 'a') } }",
    "BEGIN { o = {a: 1, b: 2}\n r = o.pluck('length')\n for (k, f in r) { print f() } }",
    "BEGIN { o = {a: 1, b: 2}\n f = o.length\n g = o.pluck\n o = 5\n print f(), g('a') }",
    "BEGIN { a = [1, 2, 3]\n f = a.length\n a = [1]\n print f() }",
    "BEGIN { a = [1, 2, 3]\n p = a.push\n b = [9]\n b.length()\n p(4)\n print a, b }",
    "BEGIN { s = 'abc'\n u = s.upper\n t = 'xyz'\n t.lower()\n print u() }",
    "BEGIN { o = {}\n r = o.pluck('pluck')\n s = 'str'\n for (k, f in r) { q = f('upper', 'length') }\n print q\n for (k, g in q) { print k, g() } }",
    "BEGIN { o = {}\n r = o.pluck('length')\n m = {}\n m.f = r.length\n print m.f() }",
    "{ r = $.pluck('pluck', 'length')\n for (k, f in r) { print k, f is function, f('a') } }",
    "BEGIN { n = 2.5\n f = n.floor\n m = 7.5\n m.ceil()\n print f() }",
    "BEGIN { x = [].length\n y = {}.length\n z = ''.length\n print x(), y(), z() }",
]


REGEX_POOL = ["a", "b", ".", "1", "^a", "a$", "b$", "^b", "a+", "b*", "..", "ab", "ba", "^ab", "ab$", "a.c", "b|a", "a|b", "[ab]", "[0-9]", "^$", "h.llo", "hallo", "hello",
              "^[a-z]+$", "^[0-9]+$"]


def rand_obj(rng, depth=2, nkeys=None):
    n = nkeys if nkeys is not None else rng.randint(2, 8)
    keys = rng.sample(KEYPOOL, n)
    d = {}
    for k in keys:
        w = rng.random()
        if depth > 0 and w < 0.25:
            d[k] = rand_obj(rng, depth - 1)
        elif depth > 0 and w < 0.4:
            d[k] = [rng.choice([1, "s", None]), rand_obj(rng, depth - 1, rng.randint(2, 4))]
        else:
            d[k] = rng.choice([0, 1, 2.5, -1, "v", "", True, None, 10, "10"])
    return d


OBJ_RULES = [
    "{ print }", "{ print $ }", "{ for (k in $) print k }", "{ for (k, v in $) print k, v }", "{ printf('%v|%30v|\\n', $, $) }",
    "{ print json($) }", "{ x = [$, $]\n print x }", "{ for (k, v in $) { if (v is object) { for (k2 in v) print k, k2 } } }",
    "{ n = 0\n for (k in $) { n++\n s = s + k }\n print n, s }", "{ for (k, v in $) { out[k] = v } }\nEND { print out\n for (k in out) print k }",
    "{ for (k in $) { $[k + '_copy'] = 1 }\n print }", "{ for (k in $) { last = k }\n print last }",
    "{ for (k in $) { first = k\n break }\n print first }", "{ print $.length(), $ }", "{ y = $\n y.added = 1\n print y\n for (k in y) print k }",
    "{ o = {}\n for (k, v in $) { o[v + ''] = k }\n print o }", "{ ks = []\n for (k in $) { ks.push(k) }\n print ks, ks.sort() }",
]


# ---- error paths of inputs holding several values: k good values, then something the decoder rejects
GOOD_VALUES = ['{"id":%d}', '{"id":%d,"name":"n%d"}', '[%d]', '[%d,{"id":%d}]', '"s%d"', '{"id":%d,"sub":{"k":[1,2,%d]}}']
BAD_TAILS = ['{"id":}', "{'id':1}", "[1,,2]", "nope", "}", "]", '{"id" 1}', "\x00", "+1", '{"id":1,}', "[1 2]", '"\\x"', "tru e", "nul", "{,}", '{"a":tru}',
             "<html>", "-", "1e", "[1,2]]", '{"id":1}}', "\xff\xfe"]
ERR_RULES = [
    "{ print $.id }", "{ print }", "{ n++ }\nEND { print n }", "{ print $index, $file }", "BEGINFILE { print 'bf', $file }\nENDFILE { print 'ef', $file, n }\n{ n++ }",
    "{ s = s + $.id + ',' }\nEND { print s }", "{ printf('%v;', $) }", "{ a.push($)\n print a.length() }", "$.id > 1 { print $.id }", "{ print $.id\n $.seen = 1 }",
    "BEGIN { print 'start' }\n{ print 'v', $index }\nEND { print 'end' }", "{ for (k, v in $) print k, v }", "{ print json($) }", "{ if ($.id == 2) next\n print $.id }",
    "{ total += $.id\n print total }", "{ print $.id, $.name, $.sub.k }",
]


def err_stream(rng):
    """(text, number of good values in front of the fault): good values, then a truncated or malformed one, then sometimes more text"""
    k = rng.choice([0, 1, 2, 3, 3, 3, 4, 5, 8, 17, 20, 40])
    shape = rng.random()
    vals = [rng.choice(GOOD_VALUES).replace("%d", str(i + 1)) for i in range(k)]
    how = rng.random()
    if how < 0.5:
        whole = rng.choice(GOOD_VALUES + ["true", "null", "false"]).replace("%d", str(k + 1))
        bad = whole[:rng.randint(1, len(whole) - 1)]          # truncated at any length
        rest = ""
    elif how < 0.85:
        bad = rng.choice(BAD_TAILS)
        rest = rng.choice(["", "", "\n" + rng.choice(GOOD_VALUES).replace("%d", "99"), " x", "\n\n"])
    else:
        bad, rest = rng.choice(BAD_TAILS), "\n".join(rng.choice(GOOD_VALUES).replace("%d", str(90 + i)) for i in range(rng.randint(1, 20)))
    if shape < 0.2 and k:
        # one top-level array holding the good values and the bad one
        return "[" + ",".join(vals) + "," + bad + rest, k
    sep = rng.choice(["\n", "\n", "\n", " ", "", "\r\n", "\n\n", "\t"])
    return sep.join(vals + [bad]) + rest, k


def good_stream(rng):
    k = rng.choice([1, 2, 3, 5])
    return rng.choice(["\n", " ", ""]).join(rng.choice(GOOD_VALUES).replace("%d", str(i + 1)) for i in range(k))


# ---- literals and argument lists whose members have side effects: the order of evaluation is part of the output
EFFECTS = ["n++", "++n", "n--", "--n", "(n = n * 2 + %d)", "(s = s + '%d')", "lg.push(%d)", "tick(%d)", "(n += %d)", "q.pop()", "q.popfirst()",
           "(o9.k%d = n++)", "[n++, n++]", "{in: n++}", "tick(n++)", "lg.length()", "(n++ + n++)"]
ORDER_KEYS = [k for k in KEYPOOL if k.isidentifier() and k.isascii()]


def effect(rng, j):
    e = rng.choice(EFFECTS)
    return e % j if "%d" in e else e


def order_prog(rng):
    m = rng.randint(2, 8)
    effs = [effect(rng, j + 1) for j in range(m)]
    keys = rng.sample(ORDER_KEYS, m)
    form = rng.choice(["object", "object", "object", "array", "call", "print", "printf", "method", "nested", "dupkey", "binary", "index", "selector_like"])
    if form == "object":
        ex = "r = {%s}\n print r" % ", ".join("%s: %s" % (k if rng.random() < 0.8 else "'%s'" % k, e) for k, e in zip(keys, effs))
    elif form == "dupkey":
        ks = [rng.choice(keys[:2]) for _ in effs]
        ex = "r = {%s}\n print r" % ", ".join("%s: %s" % (k, e) for k, e in zip(ks, effs))
    elif form == "array":
        ex = "r = [%s]\n print r" % ", ".join(effs)
    elif form == "call":
        ex = "r = show(%s)\n print r" % ", ".join(effs[:6])
    elif form == "print":
        ex = "print %s" % ", ".join(effs)
    elif form == "printf":
        ex = "printf('%s\\n', %s)" % (" ".join("%v" for _ in effs), ", ".join(effs))
    elif form == "method":
        ex = "r = {a: 1, b: 2}.pluck(key(%s), key(%s))\n print r\n r = 'x,y'.split(key2(%s, %s))\n print r" % (effs[0], effs[1], effs[0], effs[-1])
    elif form == "nested":
        ex = "r = {%s: [%s, {%s: %s, %s: %s}], %s: show(%s, %s)}\n print r" % (keys[0], effs[0], keys[1], effs[1], keys[0], effs[-1], keys[1], effs[0], effs[1])
    elif form == "binary":
        ex = "r = %s\n print r" % rng.choice([" + ", " - ", " * ", " < ", " == "]).join("(%s)" % e for e in effs[:4])
    elif form == "index":
        ex = "arr = [0, 0, 0, 0, 0, 0, 0, 0, 0, 0, 0, 0]\n arr[n++] = n++\n arr[n++] = %s\n print arr" % effs[0]
    else:
        ex = "for (k, v in {%s}) print k, v" % ", ".join("%s: %s" % (k, e) for k, e in zip(keys, effs))
    head = ("function tick(a) { cnt = cnt + 1\n lg.push('t' + a)\n return cnt * 10 + a }\n"
            "function show(a, b, c, d, e, f) { return [a, b, c, d, e, f] }\n"
            "function key(a) { lg.push('k')\n return 'a' }\nfunction key2(a, b) { lg.push('k2')\n return ',' }\n")
    init = "n = 0\n s = ''\n cnt = 0\n lg = []\n q = [7, 8, 9, 10, 11, 12, 13, 14, 15, 16, 17, 18, 19, 20, 21, 22, 23, 24]\n o9 = {}"
    where = rng.choice(["BEGIN", "BEGIN", "main", "END"])
    body = "%s\n %s\n print n, s, cnt, lg, q.length(), o9" % (init, ex)
    if where == "main":
        return head + "{ " + body + " }"
    return head + where + " { " + body + " }"


# ---- objects whose keys are DISTINCT strings that denote EQUAL numbers (or no number at all in some readings), and numeric keys of
# mixed width: anything that orders or merges keys by their numeric value instead of their bytes leaves ties to the map's random order
NUMKEY_GROUPS = [
    ["7", "07", "7.0", "+7", "7e0", "007", "7.00", "0x7p0", "7.", "7E0", "70e-1"],
    ["0", "-0", "00", "0.0", "+0", "0e0", "-0.0", "000", ".0", "0.", "0e5", "-0e0"],
    ["10", "1e1", "10.0", "1E1", "010", "+10", "1.0e1", "100e-1", "0xap0", "1e+1"],
    ["1", "1.0", "1e0", "01", "+1", "1.", "1.00", "0x1p0", "10e-1"],
    ["nan", "NaN", "NAN", "-nan", "+nan", "Nan"],
    ["inf", "Inf", "+inf", "Infinity", "INF", "1e999", "+Infinity", "infinity"],
    ["-inf", "-Inf", "-Infinity", "-1e999", "-INF"],
    ["-5", "-05", "-5.0", "-5e0", "-5.", "-50e-1"],
    ["0.5", ".5", "5e-1", "0.50", "00.5", "+.5", "0x1p-1"],
    ["1e-400", "0", "1e-999", "-1e-400", "0.0"],
    ["9007199254740992", "9007199254740993", "9007199254740992.0", "9.007199254740992e15"],
    ["0.1", "0.10000000000000000001", "0.1000000000000000055511151231257827", "1e-1"],
    ["true", "1", "false", "0", "null", ""],
    [" 7", "7 ", "7", "\t7", "7\n"],
]
NUMKEY_WIDTHS = ["9", "10", "100", "1000", "2", "-1", "1.5", "99", "098", "2024", "2023", "999", "10000", "12", "123", "1e3", "-10", "-9", "3.14", "20", "1e2"]


def numkey_obj(rng):
    """{key: marker}: 2-5 spellings of one number, often further numeric keys of other widths, sometimes a key that is no number"""
    g = rng.choice(NUMKEY_GROUPS)
    keys = rng.sample(g, rng.randint(2, min(5, len(g))))
    w = rng.random()
    if w < 0.5:
        keys += rng.sample(NUMKEY_WIDTHS, rng.randint(1, 5))
    elif w < 0.65:
        g2 = rng.choice(NUMKEY_GROUPS)
        keys += rng.sample(g2, rng.randint(1, min(3, len(g2))))
    if rng.random() < 0.15:
        keys.append(rng.choice(["k", "x1", "_", "e", "1a"]))
    seen, uniq = set(), []
    for k in keys:
        if k not in seen:
            seen.add(k)
            uniq.append(k)
    rng.shuffle(uniq)
    return {k: "v%d" % j for j, k in enumerate(uniq)}


NUMKEY_RULES = OBJ_RULES + ["{ for (k, v in $) printf('%s=%s ', k, v)\n print '' }", "{ for (k in $) { c[k] = c[k] + 1 } }\nEND { print c\n for (k, v in c) print k, v }",
                            "{ for (k, v in $) { r[v] = k }\n for (v, k in r) print v, k }", "{ p = $.pluck('7', '07', '0', '-0', '10', '1e1', '1', '01')\n print p\n for (k in p) print k }"]


# ---- inputs whose first bytes look like something else than JSON (magic numbers of compressed / archive formats, byte order marks,
# NUL) and plain ones: the result is a function of the BYTES, however they are delivered
def delivery_payloads(rng):
    docs = [b'{"a":1}', b'[1,2,3]', b'{"a":{"b":[1,2]}}\n{"a":2}\n', b'"text"', b'[{"a":1},{"a":2}]\n', b'{"b":1,"a":[true,null]}', b'7']
    out = []
    for doc in docs[:4]:
        gz = gzip.compress(doc, mtime=0)
        out += [("gzip of JSON", gz), ("gzip, fastest level", gzip.compress(doc, compresslevel=1, mtime=0)), ("gzip truncated", gz[:rng.randint(3, len(gz) - 1)]),
                ("two gzip members", gz + gz), ("gzip then JSON", gz + doc), ("JSON then gzip", doc + b"\n" + gz), ("space then gzip", b" " + gz),
                ("newline then gzip", b"\n" + gz), ("zlib of JSON", zlib.compress(doc)), ("raw deflate of JSON", zlib.compress(doc)[2:-4]),
                ("bzip2 of JSON", bz2.compress(doc)), ("xz of JSON", lzma.compress(doc)), ("lzma-alone of JSON", lzma.compress(doc, format=lzma.FORMAT_ALONE)),
                ("gzip magic then JSON", b"\x1f\x8b" + doc), ("gzip magic + method then JSON", b"\x1f\x8b\x08" + doc), ("first gzip byte then JSON", b"\x1f" + doc),
                ("second gzip byte then JSON", b"\x8b" + doc), ("gzip header only", gz[:10]), ("gzip with corrupt checksum", gz[:-8] + b"\0\0\0\0" + gz[-4:]),
                ("gzip with a file name field", gz[:3] + b"\x08" + gz[4:10] + b"in.json\0" + gz[10:])]
    for doc in docs:
        out += [("plain JSON", doc), ("plain JSON, truncated", doc[:max(1, len(doc) - 1)])]
    doc = rng.choice(docs)
    for what, lead in [("UTF-8 byte order mark", b"\xef\xbb\xbf"), ("two bytes of the UTF-8 byte order mark", b"\xef\xbb"), ("one byte of the UTF-8 byte order mark", b"\xef"),
                       ("NUL", b"\0"), ("two NULs", b"\0\0"), ("zstd magic", b"\x28\xb5\x2f\xfd"), ("lz4 magic", b"\x04\x22\x4d\x18"), ("zip magic", b"PK\x03\x04"),
                       ("compress (.Z) magic", b"\x1f\x9d\x90"), ("pack magic", b"\x1f\x1e"), ("bzip2 magic", b"BZh9"), ("xz magic", b"\xfd7zXZ\0"),
                       ("tar-ish / ustar", b"ustar\0"), ("json-seq record separator", b"\x1e"), ("XSSI guard", b")]}'\n"), ("shebang", b"#!json\n"),
                       ("snappy framing magic", b"\xff\x06\x00\x00sNaPpY"), ("brotli-looking byte", b"\x8b"), ("CBOR / msgpack looking byte", b"\xa1"), ("base64 of gzip", b"H4sIAAAAAAAA")]:
        out.append((what + " then JSON", lead + doc))
    out += [("UTF-16LE with byte order mark", b"\xff\xfe" + doc.decode().encode("utf-16-le")), ("UTF-16BE with byte order mark", b"\xfe\xff" + doc.decode().encode("utf-16-be")),
            ("UTF-32LE with byte order mark", b"\xff\xfe\0\0" + doc.decode().encode("utf-32-le")), ("empty", b""), ("one space", b" "), ("tru", b"tru"), ("[1] [2", b"[1] [2"),
            ("one byte 0x1f", b"\x1f"), ("just the gzip magic", b"\x1f\x8b")]
    return out


DELIVERY_PROGS = ["{ print }", "{ print $.a }", "{ n++ }\nEND { print n }", "BEGIN { print 'b' }\n{ print json($) }\nEND { print 'e' }", "END { print 'end' }"]


def deliver(prog, data, how, wd, k, pause=0.3):
    """(exit status, stdout) of the binary when the input bytes `data` arrive as: 'file' (a named file), 'redirect' (stdin is a regular
    file), 'pipe' (one write), ('split', n) (a pipe: the first n bytes, a pause, then the rest)"""
    path = os.path.join(wd, "in%d" % k)
    if how in ("file", "redirect"):
        with open(path, "wb") as f:
            f.write(data)
    try:
        if how == "file":
            p = subprocess.run([JQAWK, prog, path], stdin=subprocess.DEVNULL, stdout=subprocess.PIPE, stderr=subprocess.PIPE, timeout=10)
            return p.returncode, p.stdout
        if how == "redirect":
            with open(path, "rb") as f:
                p = subprocess.run([JQAWK, prog], stdin=f, stdout=subprocess.PIPE, stderr=subprocess.PIPE, timeout=10)
            return p.returncode, p.stdout
        if how == "pipe":
            p = subprocess.run([JQAWK, prog], input=data, stdout=subprocess.PIPE, stderr=subprocess.PIPE, timeout=10)
            return p.returncode, p.stdout
        n = how[1]
        p = subprocess.Popen([JQAWK, prog], stdin=subprocess.PIPE, stdout=subprocess.PIPE, stderr=subprocess.PIPE)
        try:
            try:
                p.stdin.write(data[:n])
                p.stdin.flush()
                time.sleep(pause)
                p.stdin.write(data[n:])
                p.stdin.flush()
            except (BrokenPipeError, OSError):
                pass
            try:
                p.stdin.close()
            except (BrokenPipeError, OSError):
                pass
            p.stdin = None
            out, _ = p.communicate(timeout=10)
            return p.returncode, out
        finally:
            if p.poll() is None:
                p.kill()
                p.wait()
    except subprocess.TimeoutExpired:
        return None


class C10(Check):
    pid = "C10"
    props = ["C10_determinism.v"]
    compare_model = False       # the verdict is a self-comparison of the implementation across repetitions (no model needed)
    rule = ("random programs of the general generator and own programs that print / iterate / nest / pluck / copy objects with 2-8 "
            "keys (input objects with shuffled key order, objects built by the program in random insertion order), sort arrays, and "
            "store method values (via pluck, variables, members) and call them later; every case is run (a) twice in one process "
            "in two differently shuffled sessions interleaved with unrelated programs that call and overwrite methods, and (b) three "
            "times as a fresh process of the binary; stdout, JSON output and outcome must be byte-identical.  Two further families are run "
            "ten times as fresh processes (files and stdin) and twelve more times in one process: inputs of several values that end in "
            "an ERROR (0-40 good values, then one truncated at any length / malformed / followed by more text; JSONL, concatenated, "
            "inside one top-level array; one to three files with the bad one first, in the middle or last; every chunking; failing "
            "reader), and programs whose object / array literals, argument lists, print lists and operands have members with side "
            "effects (n++, push, pop, assignments, calls) so that the evaluation order shows in the output.  Objects whose keys are distinct "
            "spellings of equal numbers (7/07/7.0/+7, 0/-0/00, 10/1e1, nan, inf ...) and numeric keys of mixed width, from the input and "
            "built by the program, printed / iterated / plucked / counted: thirty fresh processes each.  Inputs that start like something "
            "else than JSON (gzip / zlib / bzip2 / xz streams of JSON, whole, truncated, concatenated; magic numbers; byte order marks; NUL) "
            "and plain ones, delivered as a named file, as a redirected file, through a pipe in one write and through a pipe split after "
            "1, 2, 3, 4 and 10 bytes with a pause: same exit status and stdout whatever the delivery.  non-trivial = an object "
            "with at least two keys is printed or iterated")

    def generate(self, rng, tier):
        cases = []
        n_gen = 150 if tier == "quick" else 3000
        for i in range(n_gen):
            prog = genprog.rand_program(rng, 3)
            inp = genprog.rand_input(rng)
            cid = "g%d" % i
            cases.append(Case(cid, simple_run(cid, prog, [inp]), {"prog": prog, "inputs": [inp], "selectors": []}, False))
        n_obj = 260 if tier == "quick" else 5000
        for i in range(n_obj):
            cid = "o%d" % i
            w = rng.random()
            if w < 0.55:
                # objects from the input, keys in random order in the text
                objs = [rand_obj(rng) for _ in range(rng.randint(1, 3))]
                shape = rng.random()
                if shape < 0.4:
                    doc = json.dumps(objs[0], ensure_ascii=False)
                elif shape < 0.8:
                    doc = json.dumps(objs, ensure_ascii=False)
                else:
                    doc = "\n".join(json.dumps(o, ensure_ascii=False) for o in objs)
                prog = "\n".join(rng.sample(OBJ_RULES, rng.randint(1, 3)))
                sels = ()
                if rng.random() < 0.15 and shape < 0.4:
                    sels = (rng.choice(["$", "$.pluck(%s)" % ", ".join("'%s'" % k for k in rng.sample(sorted(objs[0]), min(3, len(objs[0]))))]),)
                cases.append(Case(cid, simple_run(cid, prog, [doc], sels), {"prog": prog, "inputs": [doc], "selectors": list(sels)}, True))
            elif w < 0.85:
                # objects built by the program in a random insertion order
                keys = rng.sample([k for k in KEYPOOL if k.isidentifier() and k.isascii()], rng.randint(2, 8))
                stmts = ["o.%s = %d" % (k, j) for j, k in enumerate(keys)]
                if rng.random() < 0.5:
                    stmts = ["o = {%s}" % ", ".join("%s: %d" % (k, j) for j, k in enumerate(keys))]
                tail = rng.sample(["print o", "for (k in o) print k", "for (k, v in o) print k, v", "print o.pluck(%s)" % ", ".join("'%s'" % k for k in reversed(keys)),
                                   "p = o.pluck('%s', '%s')\n print p\n for (k in p) print k" % (keys[-1], keys[0]), "print [o, {n: o}]", "print json(o)",
                                   "for (k in o) { o.late = 1\n print k }\n print o", "printf('%v\\n', o)",
                                   "a = []\n for (k in o) a.push(k)\n print a, a.sort()", "print [3, 1, 2, 10, 'b', 'a'].sort(), ['b', 'a', 'c'].sort(), [2, 1, 2, 1].sort()"],
                                  rng.randint(1, 4))
                prog = "BEGIN { " + "\n ".join(stmts + tail) + " }"
                cases.append(Case(cid, simple_run(cid, prog, []), {"prog": prog, "inputs": [], "selectors": []}, True))
            else:
                prog = rng.choice(METHOD_PROGS)
                inp = json.dumps(rand_obj(rng, 1))
                cases.append(Case(cid, simple_run(cid, prog, [inp]), {"prog": prog, "inputs": [inp], "selectors": []}, False, ("method_value",)))
        # regex matches: patterns of equal length, literal and string forms (anything cached per process shows here)
        n_re = 70 if tier == "quick" else 1200
        for i in range(n_re):
            cid = "x%d" % i
            pats = [rng.choice(REGEX_POOL) for _ in range(rng.randint(1, 4))]
            tests = []
            for j, pt in enumerate(pats):
                rhs = "/%s/" % pt if rng.random() < 0.6 else "'%s'" % pt
                tests.append("print %d, $ %s %s" % (j, rng.choice(["~", "~", "!~"]), rhs))
            prog = "{ " + "\n ".join(tests) + " }"
            inp = json.dumps([rng.choice(["a", "ab", "ba", "abc", "b", "", "10", "x1", "hello", "hallo", 5, 10, None]) for _ in range(rng.randint(1, 4))])
            cases.append(Case(cid, simple_run(cid, prog, [inp]), {"prog": prog, "inputs": [inp], "selectors": []}, False, ("regex",)))
        # printf after earlier runs whose printf failed half way (see UNRELATED)
        for j in range(24 if tier == "quick" else 200):
            cid = "f%d" % j
            prog = PRINTF_PROGS[j % len(PRINTF_PROGS)]
            inp = json.dumps(rng.choice([["sponge", "soap"], [1, 2.5], {"b": 1, "a": "x"}, "s", [[1], {"k": None}]]))
            cases.append(Case(cid, simple_run(cid, prog, [inp]), {"prog": prog, "inputs": [inp], "selectors": []}, False, ("printf",)))
        # error paths of multi-value inputs: good values followed by a truncated / malformed one, one or several files (the bad one
        # first, in the middle or last), every chunking; what was printed before the error and the outcome must not vary
        n_err = 130 if tier == "quick" else 2500
        for j in range(n_err):
            cid = "e%d" % j
            nf = rng.choice([1, 1, 1, 2, 3])
            badk = rng.choice([nf - 1, nf - 1, rng.randrange(nf)])
            texts, files = [], []
            readfail = rng.random() < 0.12
            for k in range(nf):
                if k == badk and not readfail:
                    text, _ = err_stream(rng)
                else:
                    text = good_stream(rng)
                b = text.encode("utf-8", "surrogateescape")
                step = rng.choice([512, 512, 1, 3, 7, 16, 64])
                chunks = [b[i:i + step] for i in range(0, len(b), step)]
                texts.append(text)
                files.append(("<test%d>" % (k + 1), chunks, readfail and k == badk))
            prog = rng.choice(ERR_RULES) if rng.random() < 0.8 else "\n".join(rng.sample(ERR_RULES, 2))
            sels = (rng.choice(["$", "$.id", "$.sub"]),) if rng.random() < 0.1 else ()
            cases.append(Case(cid, run_case(cid, prog, files, sels), {"prog": prog, "inputs": texts, "selectors": list(sels), "read_failure": readfail,
                                                                     "bad_file": badk}, False, ("errpath",)))
        # literals / argument lists whose members have side effects
        n_ord = 110 if tier == "quick" else 2000
        for j in range(n_ord):
            cid = "s%d" % j
            prog = order_prog(rng)
            inp = rng.choice(["[5]", "{\"b\":1,\"a\":2}", "7"])
            cases.append(Case(cid, simple_run(cid, prog, [inp]), {"prog": prog, "inputs": [inp], "selectors": []}, True, ("order",)))
        # objects whose keys are distinct spellings of equal numbers / numeric keys of mixed width
        n_num = 70 if tier == "quick" else 1500
        for j in range(n_num):
            cid = "n%d" % j
            obj = numkey_obj(rng)
            prog = "\n".join(rng.sample(NUMKEY_RULES, rng.randint(1, 2)))
            if rng.random() < 0.7:
                objs = [obj] + [numkey_obj(rng) for _ in range(rng.choice([0, 0, 1, 2]))]
                doc = rng.choice(["\n", " "]).join(json.dumps(o) for o in objs) if rng.random() < 0.7 else json.dumps(objs)
                cases.append(Case(cid, simple_run(cid, prog, [doc]), {"prog": prog, "inputs": [doc], "selectors": []}, True, ("numkey",)))
            else:
                lit = lambda k: "'" + k.replace("\\", "\\\\").replace("\t", "\\t").replace("\n", "\\n") + "'"
                if rng.random() < 0.5:
                    build = "o = {%s}" % ", ".join("%s: '%s'" % (lit(k), v) for k, v in obj.items())
                else:
                    build = "o = {}\n " + "\n ".join("o[%s] = '%s'" % (lit(k), v) for k, v in obj.items())
                tail = rng.sample(["print o", "for (k in o) print k", "for (k, v in o) printf('%s=%s ', k, v)\n print ''", "print json(o)", "printf('%v\\n', o)",
                                   "a = []\n for (k in o) a.push(k)\n print a", "for (k in o) { first = k\n break }\n print first", "print [o, {n: o}]"], rng.randint(1, 3))
                prog = "BEGIN { " + build + "\n " + "\n ".join(tail) + " }"
                cases.append(Case(cid, simple_run(cid, prog, []), {"prog": prog, "inputs": [], "selectors": []}, True, ("numkey",)))
        for j, prog in enumerate(METHOD_PROGS):
            cid = "m%d" % j
            inp = json.dumps({"b": 1, "a": [1, 2], "c": "s"})
            cases.append(Case(cid, simple_run(cid, prog, [inp]), {"prog": prog, "inputs": [inp], "selectors": []}, False, ("method_value",)))
        return cases

    def oracle(self, case, impl):
        return None

    # ---- repetition
    def extra(self, ctx):
        rng, tier = ctx["rng"], ctx["tier"]
        cases = [c for c in ctx["cases"] if c.line]
        by_id = {c.id: c for c in cases}
        viol = []
        flagged = set()
        stats = {"inprocess_runs": 0, "fresh_process_runs": 0, "inconclusive_repetitions": 0}

        def relabel(line, new_id):
            f = line.split(" ", 2)
            return f[0] + " " + new_id + " " + f[2]

        # (a) two sessions, each ONE process running every case twice in its own order, interleaved with unrelated runs
        first = {cid: RunRes(f) for cid, f in ctx["impl"].items()}
        for session in range(2):
            lines = []
            for c in cases:
                lines.append(relabel(c.line, c.id + "_a"))
                lines.append(relabel(c.line, c.id + "_b"))
            for k in range(max(20, len(cases) // 3)):
                lines.append(simple_run("u%d" % k, rng.choice(UNRELATED), [rng.choice(["[1,2,3]", "{\"b\":1,\"a\":2}", "\"abc\""])]))
            rng.shuffle(lines)
            res = _run_binary(JQH, lines, 900)
            stats["inprocess_runs"] += len(lines)
            for c in cases:
                if c.id in flagged:
                    continue
                runs = [("first run", first.get(c.id)), ("session %d, first copy" % session, RunRes(res.get(c.id + "_a", []))),
                        ("session %d, second copy" % session, RunRes(res.get(c.id + "_b", [])))]
                runs = [(w, r) for w, r in runs if r is not None]
                if any(r.outcome in ("timeout", "noresult", "crash", "badcase") for _, r in runs):
                    stats["inconclusive_repetitions"] += 1
                    continue
                base_w, base = runs[0]
                for w, r in runs[1:]:
                    if (r.outcome, r.stdout, r.json) != (base.outcome, base.stdout, base.json):
                        flagged.add(c.id)
                        viol.append((Case(c.id, c.line, dict(c.meta, repetition="same process, after other runs"), c.nontrivial, c.tags),
                                     "two runs of the same program on the same input differ: %s gave %s %r json=%s, %s gave %s %r json=%s"
                                     % (base_w, base.outcome, clip(base.stdout), jtext(base.json), w, r.outcome, clip(r.stdout), jtext(r.json))))
                        break

        # (a') the library in a fresh process per case: no earlier run at all
        fresh = [c for c in cases if c.id not in flagged]
        rng.shuffle(fresh)
        fresh = fresh[:450 if tier == "quick" else 2500]
        with ThreadPoolExecutor(max_workers=8) as ex:
            results = list(ex.map(lambda c: _run_binary(JQH, [c.line], 60), fresh))
        for c, res in zip(fresh, results):
            stats["fresh_library_runs"] = stats.get("fresh_library_runs", 0) + 1
            r, base = RunRes(res.get(c.id, [])), first.get(c.id)
            if base is None or any(x.outcome in ("timeout", "noresult", "crash", "badcase") for x in (r, base)):
                stats["inconclusive_repetitions"] += 1
                continue
            if (r.outcome, r.stdout, r.json) != (base.outcome, base.stdout, base.json):
                flagged.add(c.id)
                viol.append((Case(c.id, c.line, dict(c.meta, repetition="fresh process vs. after other runs"), c.nontrivial, c.tags),
                             "the run in a fresh process gave %s %r json=%s, the same run after other runs in one process gave %s %r json=%s"
                             % (r.outcome, clip(r.stdout), jtext(r.json), base.outcome, clip(base.stdout), jtext(base.json))))

        # (b) fresh processes of the binary: three per sampled case; ten for every case on an error path of a multi-value input and
        # for every case whose literals / argument lists have members with side effects
        sample = [c for c in cases if c.id not in flagged and not (c.tags & {"errpath", "order", "numkey"})]
        rng.shuffle(sample)
        sample = sample[:150 if tier == "quick" else 1200]
        many = [c for c in cases if c.id not in flagged and (c.tags & {"errpath", "order"}) and not c.meta.get("read_failure")]
        v, st = self.fresh_binary(sample, 3)
        viol += v
        v2, st2 = self.fresh_binary(many, 10)
        viol += v2
        # thirty for every case about keys that are distinct spellings of equal numbers
        numk = [c for c in cases if c.id not in flagged and "numkey" in c.tags]
        v3, st3 = self.fresh_binary(numk, 30)
        viol += v3
        stats["fresh_process_runs"] = st["runs"] + st2["runs"] + st3["runs"]
        stats["inconclusive_repetitions"] += st["inconclusive"] + st2["inconclusive"] + st3["inconclusive"]
        # (d) the same bytes delivered in different ways
        v4, st4 = self.delivery_checks(rng, tier)
        viol += v4
        stats.update(st4)
        # (c) the error-path cases many more times in one process
        errs = [c for c in cases if c.id not in flagged and "errpath" in c.tags]
        lines = [relabel(c.line, "%s_r%d" % (c.id, k)) for k in range(12) for c in errs]
        rng.shuffle(lines)
        res = _run_binary(JQH, lines, 900)
        stats["inprocess_runs"] += len(lines)
        for c in errs:
            base = first.get(c.id)
            for k in range(12):
                r = RunRes(res.get("%s_r%d" % (c.id, k), []))
                if base is None or any(x.outcome in ("timeout", "noresult", "crash", "badcase") for x in (r, base)):
                    stats["inconclusive_repetitions"] += 1
                    continue
                if (r.outcome, r.stdout, r.json) != (base.outcome, base.stdout, base.json):
                    viol.append((Case(c.id, c.line, dict(c.meta, repetition="same process, repeated"), c.nontrivial, c.tags),
                                 "two runs of the same program on the same (faulty) input differ: first run gave %s %r, repetition %d gave %s %r"
                                 % (base.outcome, clip(base.stdout), k + 1, r.outcome, clip(r.stdout))))
                    break
        return viol, stats


def delivery_checks(self, rng, tier):
    viol, stats = [], {"delivery_runs": 0, "delivery_inputs": 0}
    jobs = []
    for what, data in delivery_payloads(rng):
        for prog in rng.sample(DELIVERY_PROGS, 1 if tier == "quick" else 3):
            jobs.append((what, data, prog))
    hows = ["file", "redirect", "pipe"] + [("split", n) for n in (1, 2, 3, 4, 10)]
    d = tempfile.mkdtemp(prefix="c10d-", dir=BUILD)

    def one(kj):
        k, (what, data, prog) = kj
        res = []
        for how in hows:
            if isinstance(how, tuple) and how[1] >= len(data):
                continue
            res.append((how, deliver(prog, data, how, d, k)))
        return res

    try:
        with ThreadPoolExecutor(max_workers=16) as ex:
            results = list(ex.map(one, enumerate(jobs)))
    finally:
        shutil.rmtree(d, ignore_errors=True)
    for (what, data, prog), res in zip(jobs, results):
        stats["delivery_inputs"] += 1
        res = [(h, r) for h, r in res if r is not None]
        stats["delivery_runs"] += len(res)
        if not res:
            continue
        h0, r0 = res[0]
        for h, r in res[1:]:
            if r != r0:
                name = lambda x: {"file": "as a named file", "redirect": "on stdin from a file", "pipe": "on stdin through a pipe in one write"}.get(x) or \
                    "on stdin through a pipe, the first %d byte(s), a pause, then the rest" % x[1]
                viol.append((Case("delivery", None, {"prog": prog, "input_kind": what, "input_hex": data.hex(), "inputs": [data.decode("latin-1")], "selectors": [],
                                                     "deliveries": [[str(hh), rr[0], rr[1].decode("utf-8", "replace")] for hh, rr in res]}, True, ("delivery",)),
                             "the same %d input bytes (%s) give different results depending on how they arrive: %s: exit %d %r; %s: exit %d %r"
                             % (len(data), what, name(h0), r0[0], clip(r0[1]), name(h), r[0], clip(r[1]))))
                break
    return viol[:5], stats


def fresh_binary(self, sample, reps, jqawk=None):
    """run every case `reps` times as a fresh process of the binary (input from files; a single input alternately on stdin)"""
    jqawk = jqawk or JQAWK
    viol, stats = [], {"runs": 0, "inconclusive": 0}
    d = tempfile.mkdtemp(prefix="c10-", dir=BUILD)

    def one(ic):
        i, c = ic
        m = c.meta
        wd = os.path.join(d, "w%d" % i)
        os.mkdir(wd)
        with open(os.path.join(wd, "prog"), "wb") as f:
            f.write(m["prog"].encode("utf-8", "surrogateescape"))
        args = [jqawk, "-f", "prog"]
        for s in m["selectors"]:
            args += ["-r", s]
        names = []
        for k, text in enumerate(m["inputs"]):
            nm = "in%d.json" % k
            with open(os.path.join(wd, nm), "wb") as f:
                f.write(text.encode("utf-8", "surrogateescape"))
            names.append(nm)
        if len(names) == 1:
            args += ["-o", "-"]
        stdin_bytes = None
        if len(names) == 1 and (c.tags & {"errpath", "order", "numkey"}) and i % 2:
            stdin_bytes = m["inputs"][0].encode("utf-8", "surrogateescape")
        else:
            args += names
        outs = []
        for rep in range(reps):
            try:
                if stdin_bytes is None:
                    p = subprocess.run(args, cwd=wd, stdin=subprocess.DEVNULL, stdout=subprocess.PIPE, stderr=subprocess.PIPE, timeout=5)
                else:
                    p = subprocess.run(args, cwd=wd, input=stdin_bytes, stdout=subprocess.PIPE, stderr=subprocess.PIPE, timeout=5)
                outs.append((p.returncode, p.stdout))
            except subprocess.TimeoutExpired:
                return c, None, args, stdin_bytes is not None
        return c, outs, args, stdin_bytes is not None

    try:
        with ThreadPoolExecutor(max_workers=8) as ex:
            results = list(ex.map(one, enumerate(sample)))
        for c, outs, args, on_stdin in results:
            if outs is None:
                stats["inconclusive"] += 1
                continue
            stats["runs"] += len(outs)
            for k in range(1, len(outs)):
                if outs[k] != outs[0]:
                    distinct = len(set(outs))
                    viol.append((Case(c.id, c.line, dict(c.meta, repetition="fresh processes", argv=args[1:], input_on_stdin=on_stdin), c.nontrivial, c.tags),
                                 "fresh processes of the binary differ (%d distinct results in %d runs): run 1 exit %d %r, run %d exit %d %r"
                                 % (distinct, len(outs), outs[0][0], clip(outs[0][1]), k + 1, outs[k][0], clip(outs[k][1]))))
                    break
    finally:
        shutil.rmtree(d, ignore_errors=True)
    return viol, stats


C10.fresh_binary = fresh_binary
C10.delivery_checks = delivery_checks


def jtext(field):
    return field if field in ("!", "P", "~", "?") else clip(unhx(field))


def clip(b, n=150):
    if isinstance(b, bytes):
        b = b.decode("utf-8", "replace")
    return b if len(b) <= n else b[:n - 3] + "..."


CHECK = C10()
