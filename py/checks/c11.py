"""C11: syntax errors pre-empt all execution; runtime faults stop the run at the fault.

(a) valid tracing programs with a syntax error spliced in (static rejections: return outside a function,
break/continue outside a loop, assignment to a literal; illegal tokens at a random token boundary; token
deletions/insertions): a syntax-error outcome always comes with EMPTY stdout, and the splices that are
errors by the grammar must be reported as such.
(b) every runtime fault kind at every evaluated syntactic position, inside every kind of host (rule kinds,
functions) and nest (if/else, the three loops, match block): the faulty program F and its twin H, in which the
faulty expression is replaced by a call of `mk()` that prints the marker line `@@`, behave identically until
the position is evaluated for the first time; so F must end with a runtime error and stdout(F) must be exactly
stdout(H) cut before the first marker.
(c) faults that depend on a runtime value, at a site that is evaluated several times and sees good operands first
(loop over operands, a function called with good then bad arguments, operands taken from the records): the run
must stop, with a runtime error, exactly at the first bad evaluation.
(d) bytes no token can start with (NUL and the other control characters, DEL, 0x80-0xBF, byte-order marks, other multi-byte
sequences) spliced after complete rules (end of text, after the final newline, between two rules, before the first rule, a
token boundary inside a rule), followed by nothing, more rules or text that is not a program: a syntax error, no output.
(e) a container compared with ITSELF (the same variable, parameter, loop variable, member path, element, $, an alias) by each of
== != < <= > >= is the same fault as comparing two distinct containers.
(g) literals and argument lists whose elements REPEAT: object literals that write the same key two or three times (as identifier, as
string, mixed, next to other keys, in a nested literal), array literals / argument lists / print lists that repeat the same element
text: every element is evaluated, in order; a fault in any of them (whether its key is written again later or was written before)
stops the run there with the output of the elements in front of it."""
import re
from framework import Check, Case
from jqlib import run_case, simple_run, RunRes
from checklib import ANY, abnormal, tokens, prescreen

MARK = b"@@\n"
PRE = ("function mk() { print \"@@\"\n return 1 }\n"
       "function lab(s) { print s\n return s }\n"
       "function inf(n) { return inf(n + 1) }\n")
TAIL_RULES = "\n{ print \"Q\", $ }\nEND { print \"Z\" }"

# ---- hosts: where the statement block goes. (name, template, in_function)
HOSTS = [
    ("begin", "BEGIN { print \"B1\"\n %s\n print \"B2\" }\n{ print \"P\", $ }\nEND { print \"Z\" }", False),
    ("end", "BEGIN { print \"B\" }\n{ print \"P\", $ }\nEND { print \"E1\"\n %s\n print \"E2\" }", False),
    ("pattern", "BEGIN { print \"B\" }\n{ print \"P1\", $\n %s\n print \"P2\" }" + TAIL_RULES, False),
    ("guarded", "BEGIN { print \"B\" }\n{ print \"P0\", $ }\n$ > 1 { print \"P1\", $\n %s\n print \"P2\" }" + TAIL_RULES, False),
    ("beginfile", "BEGIN { print \"B\" }\nBEGINFILE { print \"F1\"\n %s\n print \"F2\" }" + TAIL_RULES, False),
    ("endfile", "BEGIN { print \"B\" }\nENDFILE { print \"G1\"\n %s\n print \"G2\" }" + TAIL_RULES, False),
    ("fn-begin", "function fn(a) { print \"F1\"\n %s\n print \"F2\"\n return a }\nBEGIN { print \"B1\"\n fn(1)\n print \"B2\" }\nEND { print \"Z\" }", True),
    ("fn-pattern", "function fn(a) { print \"F1\", a\n %s\n print \"F2\"\n return a }\nBEGIN { print \"B\" }\n{ print \"P1\"\n print fn($)\n print \"P2\" }" + TAIL_RULES, True),
    ("fn-nested", "function fn(a) { print \"F1\"\n %s\n return a }\nfunction outer(a) { print \"O1\"\n x = [fn(a), lab(\"O2\")]\n print \"O3\" }\n"
                  "{ print \"P1\"\n outer($)\n print \"P2\" }\nEND { print \"Z\" }", True),
    ("fn-end", "function fn(a) { %s }\nBEGIN { print \"B\" }\nEND { print \"E1\"\n fn(2)\n print \"E2\" }", True),
]

# ---- nests: (name, template, in_loop)
NESTS = [
    ("plain", "%s", False),
    ("if", "if (true) { print \"N1\"\n %s\n print \"N2\" }", False),
    ("else", "if (false) { print \"no\" } else { %s\n print \"N3\" }", False),
    ("block", "{ print \"N4\"\n { %s } }", False),
    ("for", "for (k = 0; k < 2; k++) { print \"K\", k\n %s\n print \"K2\" }", True),
    ("forin", "for (w in [7, 8]) { print \"W\", w\n %s }", True),
    ("forin-obj", "for (w, u in {a: 1, b: 2}) { %s\n print \"W2\", w }", True),
    ("while", "n = 0\n while (n < 2) { n++\n print \"H\", n\n %s }", True),
    ("match-block", "z = match (1) { 2 => 0, 1 => { print \"M1\"\n %s\n print \"M2\" } }\n print \"M3\", z", False),
    ("loop-if", "for (k = 0; k < 3; k++) { if (k == 1) { %s }\n print \"K3\", k }", True),
]

# ---- positions: statement templates around the expression slot %s.  (name, template, func_only)
POSITIONS = [
    ("stmt", "{ %s }", False),
    ("assign-rhs", "x = %s", False),
    ("compound-rhs", "x += %s", False),
    ("print-1", "print %s, \"L\"", False),
    ("print-2", "print \"L\", %s", False),
    ("print-mid", "print lab(\"L1\"), %s, lab(\"L2\")", False),
    ("add-left", "x = %s + lab(\"R\")", False),
    ("add-right", "x = lab(\"L\") + %s", False),
    ("mul-right", "x = 2 * %s", False),
    ("cmp-left", "x = %s < 3", False),
    ("cmp-right", "x = 3 >= %s", False),
    ("eq-right", "x = null == %s", False),
    ("and-left", "x = %s && lab(\"R\")", False),
    ("and-right", "x = true && %s", False),
    ("or-right", "x = false || %s", False),
    ("not", "x = !%s", False),
    ("neg", "x = -%s", False),
    ("tilde-left", "x = %s ~ \"a\"", False),
    ("tilde-right", "x = \"a\" ~ %s", False),
    ("is-left", "x = %s is number", False),
    ("member-base", "x = %s.k", False),
    ("index-base", "x = %s[0]", False),
    ("index", "arr = [1, 2]\n x = arr[%s]", False),
    ("index-store", "arr = [1, 2]\n arr[%s] = lab(\"S\")", False),
    ("index-incr", "arr = [1, 2]\n arr[%s]++", False),
    ("store-rhs-member", "o = {}\n o.k = %s", False),
    ("call-arg", "lab(%s)", False),
    ("call-arg2", "x = fn2(lab(\"A1\"), %s, lab(\"A3\"))", False),
    ("native-arg", "x = num(%s)", False),
    ("method-arg", "arr = [1]\n arr.push(%s)", False),
    ("method-recv", "x = %s.length()", False),
    ("printf-arg", "printf(\"%%v|%%v\\n\", 1, %s)", False),
    ("printf-fmt", "printf(%s)", False),
    ("array-elem", "x = [lab(\"A\"), %s, lab(\"C\")]", False),
    ("object-elem", "x = {a: lab(\"A\"), b: %s, c: lab(\"C\")}", False),
    ("nested-literal", "x = [[1, {k: [%s]}]]", False),
    ("if-cond", "if (%s) { print \"T\" } else { print \"E\" }", False),
    ("while-cond", "while (%s) { print \"wb\"\n break }", False),
    ("for-init", "for (%s; i < 2; i++) { print \"fb\", i }", False),
    ("for-init2", "for (i = %s; i < 2; i++) { print \"fb\", i }", False),
    ("for-cond", "for (i = 0; %s; i++) { print \"fb\", i\n break }", False),
    ("for-cond2", "for (i = 0; i < %s + 1; i++) { print \"fb\", i }", False),
    ("for-post", "for (i = 0; i < 2; %s) { print \"fb\", i\n i++ }", False),
    ("for-post2", "for (i = 0; i < 2; i += %s) { print \"fb\", i }", False),
    ("forin-iter", "for (v in %s) { print \"v\", v }", False),
    ("forin-iter2", "for (v in [1, %s]) { print \"v\", v }", False),
    ("match-subject", "x = match (%s) { 1 => lab(\"one\"), _ => lab(\"other\") }", False),
    ("match-body", "x = match (2) { 1 => lab(\"one\"), 2 => %s, _ => lab(\"other\") }", False),
    ("match-body-block", "x = match (2) { 2 => { print \"mb\"\n y = %s\n print \"mb2\" } }", False),
    ("match-default", "x = match (9) { 1 => 0, q => %s }", False),
    ("paren", "x = ((%s))", False),
    ("return", "return %s", True),
    ("return-nested", "if (a) { return [%s] }", True),
]

# ---- faults as expressions
FAULTS = {
    "div0": "(1 / 0)", "mod0": "(7 % 0)", "call-unknown": "(nofn(1))", "call-number": "((5)(1))",
    "regex": "(\"a\" ~ \"(\")", "regex-lit": "(\"a\" !~ /[/)", "cmp-array": "([1] < 2)", "cmp-object": "({a: 1} == 1)",
    "forin-number": "(match (1) { 1 => { for (qv in 5) { } } })",
    "member-store-scalar": "(match (1) { 1 => { qs = 5\n qs.y = 1 } })",
    "incdec-scalar-member": "(match (1) { 1 => { qs = 5\n qs.y++ } })",
    "decr-scalar-member": "(match (1) { 1 => { qs = \"s\"\n qt = --qs.y } })",
    "printf-verb": "printf(\"%d\", 1)", "printf-verb-late": "printf(\"zz %s %d\", \"a\", 1)", "printf-dangling": "printf(\"zz%\")", "printf-missing": "printf(\"%s\")", "printf-kind": "printf(\"%f\", \"x\")", "printf-nofmt": "printf(5)",
    "dollar-name": "$nope", "escape": "\"\\q\"", "store-function": "(qf = printf)", "index-before-start": "[1, 2][-9]",
    "depth": "inf(0)", "fill": "(match (1) { 1 => { qa = []\n qa[2000000] = 1 } })",
    "match-literal-vs-array": "(match ([1, 2]) { 0 => 1, q => 2 })", "match-literal-vs-object": "(match ({a: 1}) { \"a\" => 1, [x] => 2, q => 3 })",
    "match-literal-vs-nested": "(match ([[1]]) { [7] => 1, q => 2 })", "match-bool-vs-array": "(match ([]) { true => 1, q => 2 })",
    "self-eq-array": "(match ([1]) { qv => qv == qv })", "self-ne-object": "(match ({a: 1}) { qv => qv != qv })",
    "self-lt-array": "(match ([]) { qv => qv < qv })", "self-le-element": "(match ([[1], 2]) { qv => qv[0] <= qv[0] })",
    "self-gt-member": "(match ({k: {}}) { qv => qv.k > qv.k })", "self-ge-object": "(match ({}) { qv => qv >= qv })",
    "self-eq-nested-path": "(match ({k: [0, {j: [1]}]}) { qv => qv.k[1].j == qv.k[1].j })", "self-contains": "(match ([[1]]) { qv => qv.contains(qv[0]) })",
    "tilde-number": "(1 ~ 5)", "object-index": "({a: 1}[[1]])", "array-key-store": "(match (1) { 1 => { qa = []\n qa[\"k\"] = 1 } })",
}
# ---- faults that are statements (position "stmt" only)
STMT_FAULTS = {
    "forin-number": "for (qv in 5) { print \"never\" }", "member-store-scalar": "qs = 5\n qs.y = 1", "incdec-scalar-member": "qs = 5\n qs.y++",
    "incdec-prefix": "qs = true\n qt = ++qs.k", "fill": "qa = [1]\n qa[1048577] = 1", "forin-null": "for (a1, b1 in null) { }",
    "div0-compound": "qd = 1\n qd /= 0",
    "self-compare-var": "qa = [1, 2]\n qb = qa == qa", "self-compare-alias": "qa = {a: 1}\n qb = qa\n qc = qb <= qb", "self-compare-member": "qo = {k: [1]}\n if (qo.k != qo.k) { print \"never\" }",
    "self-compare-loopvar": "for (qv in [[1]]) { qb = qv >= qv }", "self-compare-negindex": "qa = [1, [2]]\n qb = qa[-1] > qa[-1]", "nested-store": "qs = 5\n qs.a.b = 1", "bool-index-store": "qs = true\n qs[0] = 1",
}

# ------------------------------------------------------------------ (c) the same site evaluated several times, faulty only later
# A fault whose presence depends on a runtime value: the site first sees good operands, then a bad one.
# (kind, statement using the operand variable r, good operand source texts, bad operand, output of the site per good operand, JSON-able)
LATER_SITES = [
    ("regex-value", "x = \"abc\" ~ r", ["/b/", "/x/", "/^a/"], "/(/", "", False),
    ("regex-value-neg", "x = \"abc\" !~ r", ["/b/", "/c$/"], "/[/", "", False),
    ("regex-value-in-call", "x = lab(\"abc\" ~ r)", ["/b/", "/zz/"], "/a(/", None, False),
    ("regex-string", "x = \"abc\" ~ r", ["\"b\"", "\"c$\"", "\"x\""], "\"(\"", "", True),
    ("regex-string-neg", "x = \"abc\" !~ r", ["\"b\"", "\"^a\""], "\"[\"", "", True),
    ("regex-mixed", "x = \"abc\" ~ r", ["/b/", "\"c\""], "/)/", "", False),
    ("regex-mixed2", "x = \"abc\" ~ r", ["\"b\"", "/c/"], "\"a{2,1}\"", "", False),
    ("tilde-operand-kind", "x = \"a\" ~ r", ["\"a\"", "/a/"], "5", "", False),
    ("divisor", "x = 10 / r", ["2", "5", "0.5"], "0", "", True),
    ("modulus", "x = 10 % r", ["3", "4"], "0", "", True),
    ("divisor-string", "x = 10 / r", ["\"2\"", "4"], "\"zero\"", "", True),
    ("method-callee", "x = r.length()", ["\"ab\"", "[1, 2]", "{}"], "5", "", True),
    ("compare-left", "x = r < 2", ["1", "3", "\"a\"", "null"], "[1]", "", True),
    ("compare-right", "x = 2 >= r", ["\"a\"", "null", "true"], "{}", "", True),
    ("equality", "x = r == 1", ["1", "\"1\"", "null"], "[]", "", True),
    ("self-eq", "x = r == r", ["1", "\"a\"", "null", "true"], "[1]", "", True),
    ("self-ne", "x = r != r", ["1", "\"a\"", "null"], "{}", "", True),
    ("self-lt", "x = r < r", ["1", "\"a\"", "null", "false"], "[]", "", True),
    ("self-le", "x = r <= r", ["2.5", "\"\"", "null"], "{a: 1}", "", True),
    ("self-gt", "x = r > r", ["0", "\"b\"", "true"], "[[1]]", "", True),
    ("self-ge", "x = r >= r", ["1", "\"a\"", "null"], "[1, 2]", "", True),
    ("self-eq-in-call", "x = lab(r == r)", ["1", "\"a\""], "[1]", ["true\n", "true\n"], True),
    ("self-ne-cond", "if (r != r) { print \"never\" }", ["1", "null"], "{k: 1}", "", True),
    ("self-alias", "t = r\n x = t == t", ["1", "\"a\""], "[1]", "", True),
    ("self-boxed", "o = {k: r}\n x = o.k <= o.k", ["1", "null"], "[]", "", True),
    ("self-element", "arr = [0, r]\n x = arr[1] >= arr[-1]", ["1", "\"a\""], "{}", "", True),
    ("forin-iterable", "for (q in r) { n++ }", ["[1]", "\"ab\"", "{}"], "5", "", True),
    ("forin-null", "for (q, w in r) { n++ }", ["[1, 2]", "{}"], "null", "", True),
    ("member-store-base", "r.k = 1", ["{}", "{a: 1}"], "5", "", True),
    ("member-incr-base", "r.k++", ["{}", "{k: 1}"], "\"s\"", "", True),
    ("index-store-base", "r[0] = 1", ["[]", "[5, 6]"], "true", "", True),
    ("printf-format", "printf(r, 1)", ["\"%v|\\n\"", "\"%f|\\n\"", "\"%3v|\\n\""], "\"%s|\\n\"", ["1|\n", "1|\n", "  1|\n"], False),
    ("printf-format-verb", "printf(r, 1)", ["\"%v.\\n\"", "\"%%\\n\""], "\"%d\\n\"", ["1.\n", "%\n"], False),
    ("printf-arg", "printf(\"%s|\\n\", r)", ["\"a\"", "\"b\""], "5", ["a|\n", "b|\n"], True),
    ("printf-arg-f", "printf(\"%f|\\n\", r)", ["1", "2.5"], "\"x\"", ["1|\n", "2.5|\n"], True),
    ("index", "x = [1, 2][r]", ["0", "1", "5", "-2"], "-9", "", True),
    ("index-store", "arr = [1]\n arr[r] = 1", ["0", "3", "-1"], "2000000", "", True),
    ("index-store-negative", "arr = [1, 2]\n arr[r] = 1", ["1", "-2"], "-3", "", True),
    ("match-case-literal", "x = match (r) { 0 => \"zero\", [a, b] => \"pair\", q => \"other\" }", ["0", "5", "\"s\"", "null", "true"], "[2, 3]", "", True),
    ("match-case-literal-object", "x = match (r) { [] => 0, \"k\" => 1, q => 2 }", ["\"k\"", "1", "[]"], "{}", "", True),
    ("match-case-nested-literal", "x = match (r) { [1, 2] => 0, q => 2 }", ["[1, 2]", "[3, 4]", "7"], "[1, [2]]", "", True),
    ("object-index", "x = {a: 1}[r]", ["\"a\"", "1", "\"zz\""], "[1]", "", True),
    ("array-key-store", "arr = [1]\n arr[r] = 2", ["0", "1"], "\"k\"", "", True),
]


def _json_text(src):
    """source text of an operand -> JSON text (only called for JSON-able operands)"""
    t = src.replace("{a: 1}", "{\"a\": 1}").replace("{k: 1}", "{\"k\": 1}")
    return t


def later_fault_cases(rng, quick):
    """yields (prog, inputs, expected_stdout, meta)"""
    out = []
    for kind, stmt, goods, bad, site_out, jsonable in LATER_SITES:
        for variant in range(2 if quick else 6):
            k = rng.randint(1, len(goods))
            gs = rng.sample(goods, k) if variant else goods[:2]
            if rng.random() < 0.3:
                gs = gs + [rng.choice(gs)]                      # the same good operand twice
            tail = [rng.choice(goods)] if rng.random() < 0.4 else []     # operands after the bad one never reach the site
            vals = gs + [bad] + tail
            ng = len(gs)

            if site_out is None:
                # the site prints its own result through lab()
                outs = [{"/b/": "true\n", "/zz/": "false\n"}[g] for g in gs]
            elif isinstance(site_out, list):
                outs = [site_out[goods.index(g)] for g in gs]
            else:
                outs = [site_out] * ng
            n = len(vals)
            lit = ", ".join(vals)
            mechs = []
            # A1: for-in over a literal array of operands
            mechs.append(("forin-array", PRE + "BEGIN { print \"start\"\n for (r in [%s]) { print \"it\"\n %s\n print \"ok\" }\n print \"done\" }\nEND { print \"Z\" }" % (lit, stmt),
                          [], "start\n" + "".join("it\n" + o + "ok\n" for o in outs) + "it\n"))
            # A2: index loop over a variable
            mechs.append(("index-loop", PRE + "BEGIN { print \"start\"\n vals = [%s]\n for (i = 0; i < %d; i++) { r = vals[i]\n print \"it\", i\n %s\n print \"ok\" }\n print \"done\" }" % (lit, n, stmt),
                          [], "start\n" + "".join("it %d\n" % i + o + "ok\n" for i, o in enumerate(outs)) + "it %d\n" % ng))
            # A3: while loop, operand chosen by a match on the counter
            arms = ", ".join("%d => (%s)" % (i + 1, v) for i, v in enumerate(vals))
            mechs.append(("while-match", PRE + "BEGIN { print \"start\"\n c = 0\n while (c < %d) { c++\n r = match (c) { %s }\n print \"it\"\n %s\n print \"ok\" }\n print \"done\" }" % (n, arms, stmt),
                          [], "start\n" + "".join("it\n" + o + "ok\n" for o in outs) + "it\n"))
            # B1: a function called with good operands, then with the bad one
            calls = "\n ".join("y = site(%s)\n print \"ok\", %d" % (v, i) for i, v in enumerate(vals))
            mechs.append(("function-calls", PRE + "function site(r) { print \"in\"\n %s\n return 1 }\nBEGIN { print \"start\"\n %s\n print \"done\" }" % (stmt, calls),
                          [], "start\n" + "".join("in\n" + o + "ok %d\n" % i for i, o in enumerate(outs)) + "in\n"))
            # B2: the function called once per record with a good operand, then from END with the bad one
            g0 = gs[0]
            mechs.append(("function-records-then-end", PRE + "function site(r) { print \"in\"\n %s\n return 1 }\n{ y = site(%s)\n print \"rec\", $ }\nEND { print \"E1\"\n y = site(%s)\n print \"E2\" }" % (stmt, g0, bad),
                          ["[1,2,3]"], "".join("in\n" + outs[0] + "rec %d\n" % i for i in (1, 2, 3)) + "E1\nin\n"))
            # D: the operand selected per record by a match on the record
            arms = ", ".join("%d => (%s)" % (i + 1, v) for i, v in enumerate(vals))
            mechs.append(("record-match", PRE + "BEGIN { print \"B\" }\n{ print \"it\", $\n r = match ($) { %s }\n %s\n print \"ok\" }\nEND { print \"Z\" }" % (arms, stmt),
                          ["[" + ",".join(str(i + 1) for i in range(n)) + "]"], "B\n" + "".join("it %d\n" % (i + 1) + o + "ok\n" for i, o in enumerate(outs)) + "it %d\n" % (ng + 1)))
            if jsonable:
                recs = [_json_text(v) for v in vals]
                # C1: the operand is the record itself
                for sep, name in (((",", "one-array")), (("\n", "jsonl"))):
                    text = "[" + ",".join(recs) + "]" if name == "one-array" else "\n".join("[%s]" % r for r in recs)
                    mechs.append(("record-operand-" + name, PRE + "BEGIN { print \"B\" }\n{ print \"it\"\n r = $\n %s\n print \"ok\" }\nEND { print \"Z\" }" % stmt,
                                  [text], "B\n" + "".join("it\n" + o + "ok\n" for o in outs) + "it\n"))
                # C2: the site is the rule's pattern (inside an array literal, which is always truthy)
                if stmt.startswith("x = ") and "\n" not in stmt:
                    expr = stmt[4:].replace(" r ", " $ ").replace("[r]", "[$]").replace("(r)", "($)").replace("r.", "$.")
                    if expr.endswith(" r"):
                        expr = expr[:-2] + " $"
                    if expr.startswith("r "):
                        expr = "$ " + expr[2:]
                    if "$" in expr:
                        mechs.append(("rule-pattern", PRE + "BEGIN { print \"B\" }\n{ print \"it\" }\n[%s] { print \"hit\" }\nEND { print \"Z\" }" % expr,
                                      ["[" + ",".join(recs) + "]"], "B\n" + "".join("it\n" + o + "hit\n" for o in outs) + "it\n"))
            if quick:
                mechs = rng.sample(mechs, min(len(mechs), 5))
            for mname, prog, inputs, exp in mechs:
                out.append((prog, inputs, exp, {"role": "later-fault", "fault": kind, "position": mname, "operands": vals}))
    return out


INPUTS = [["[1,2,3]"], ["[2]\n[3]"], ['{"a":1}'], ["[5,6]", "[7]"]]

# ---- syntax splices that are errors by the grammar wherever a statement may stand
SYNTAX_STMTS = ["5 = 1", "\"a\" = 1", "x + 1 = 2", "true = 1", "null = 1", "@", "x @ y", "x ? y", "print print", ")", "x = = 1",
                "x y", "x = (1", "if (x {", "}", "function g() { }", "BEGIN { }", "for (;;) { }", "while { }", "[1, 2 = 3", "{a: } = 1"]
CTX_SYNTAX = [("return 1", "nofunc"), ("return", "nofunc"), ("if (true) { return 2 }", "nofunc"), ("break", "noloop"), ("continue", "noloop"),
              ("if (true) { break }", "noloop"), ("x = match (1) { 1 => { continue } }", "noloop"), ("x = match (1) { 1 => { return 1 } }", "nofunc"),
              # a loop's own header is not inside the loop
              ("while (match (1) { 1 => { break }, q => true }) { print \"w\" }", "noloop"),
              ("n = 0\n while (match (n) { 3 => { break }, q => true }) { n++\n print n }", "noloop"),
              ("for (i = 0; match (i) { 1 => { break }, q => true }; i++) { print \"f\" }", "noloop"),
              ("for (match (1) { 1 => { continue } }; false; i++) { print \"f\" }", "noloop"),
              ("for (i = 0; i < 1; match (1) { 1 => { break } }) { i++ }", "noloop"),
              ("for (v in match (1) { 1 => { break }, q => [1] }) { print v }", "noloop"),
              ("for (k, v in match (1) { 1 => { continue } }) { print v }", "noloop"),
              ("while (true && match (1) { 1 => { continue } }) { print \"w\" }", "noloop")]
BAD_TOKENS = ["@", "?", "^", " & ", " | ", "`", "\\"]

# ---- (f) near misses: forms one token away from a valid program that the grammar refuses (kept: exactly those the reference
# build rejects; e.g. `if (c) print 1; else print 2` is accepted because print consumes its own ';', and a trailing ',' in an
# argument list is accepted, so neither is listed).  ';' before else for every kind of if-body, else without if, doubled or
# misplaced ';', stray ',' in argument / element / pattern / parameter lists, missing or mismatched parentheses in headers.
NEAR_STMTS = [
    'if (0) x = 1; else x = 2', 'if (0) lab("a"); else lab("b")', 'if (0) x++; else x--', 'if (0) { x = 1 }; else { x = 2 }',
    'if (0) printf("a"); else x = 1', 'if (0) next; else x = 1', 'if (0) exit; else x = 1', 'if (0) if (1) x = 1; else x = 2',
    'if (0) if (1) x = 1 else x = 2; else x = 3', 'if (0) while (0) x = 1; else x = 2', 'if (0) for (;;) x = 1; else x = 2',
    'if (0) for (v in []) x = 1; else x = 2', 'if (0) x = match (1) { 1 => 2 }; else x = 3', 'if (0) match (1) { 1 => 2 }; else x = 3',
    'if (0) x = [1]; else x = 2', 'if (0) x = {a: 1}; else x = 2', 'if (0) x.k = 1; else x = 2', 'if (0) x += 1; else x = 2', 'if (0) -x; else x = 2',
    'if (0) (x); else x = 2', 'if (0) "s"; else x = 2', 'if (0) 1; else x = 2', 'if (0) x; else x = 2', 'if (0) x = 1;\n else x = 2',
    'if (0) x = 1 ;else x = 2', 'if (0) x = 1\n ; else x = 2', 'if (0) x = 1;; else x = 2', 'if (0) x = 1; else; x = 2', 'if (0) x = 1 else; x = 2',
    'if (1) { x = 1 } else { x = 2 }; else { x = 3 }', 'if (0) x = 1; else if (1) x = 2; else x = 3', 'if (0) x = 1 else if (1) x = 2; else x = 3',
    'else x = 1', 'else { x = 1 }', 'x = 1\n else x = 2', 'x = 1 else x = 2', '{ x = 1 } else { x = 2 }', 'while (0) { } else { x = 1 }',
    'for (;;) { break } else { x = 1 }', 'for (v in []) { } else { }', 'if (1) { } else { } else { }', 'else', 'if (1) else x = 1',
    'x = match (1) { 1 => 2 } else x = 3', 'print "a" else print "b"', 'print "a"\n else print "b"', 'else if (1) { }', 'if (1) { } else else { }',
    'x = else', 'lab(else)', 'if (else) { }', 'x = 1;; y = 2', 'print 1;; print 2', '; x = 1', '{ ; }', '{ x = 1;; }', 'if (1) ;', 'for (;;) ;',
    'while (0) ;', 'x = 1 ;\n; y = 2', 'x = 1; ; y = 2', 'print;; x = 1', 'print "a";;', ';', ';;', 'if (1) { };', 'if (1) { } ; x = 1',
    'while (0) { };', 'x = match (1) { 1 => 2 };', 'lab("a");; lab("b")', 'x = [1;]', 'lab(1;)', 'x = (1;)', 'for (;;;) { break }',
    'for (i = 0;; i < 2; i++) { }', 'if (1;) { }', 'while (0;) { }', 'x = match (1;) { 1 => 2 }', 'x = match (1) { 1 => 2; 3 => 4 }',
    'x = match (1) { 1 => 2;, 3 => 4 }', 'x = {a: 1; b: 2}', 'lab(,)', 'lab(, "a")', 'lab("a",,"b")', 'x = fn2(1,, 2)', 'x = "a".upper(,)', 'x = [,]',
    'x = [, 1]', 'x = [1,, 2]', 'x = {,}', 'x = {a: 1,, b: 2}', 'x = {, a: 1}', 'x = lab(("a",))', 'x = ("a",)', 'x = (1, 2)', 'print "a",, "b"',
    'print , "a"', 'x = match (1) { 1, => 2 }', 'x = match (1) { , 1 => 2 }', 'x = match (1) { 1 => 2,, 3 => 4 }', 'x = match (1) { 1,, 2 => 3 }',
    'x = match (1,) { 1 => 2 }', 'x = match ([1]) { [,1] => 2 }', 'for (v, in [1]) { }', 'for (, v in [1]) { }', 'for (k, v, in {}) { }',
    'for (k,, v in {}) { }', 'for (k, v, w in {}) { }', 'if x { }', 'if 1 x = 2', 'if 1 { x = 2 }', 'if true print "a"', 'while x { }',
    'while 0 { break }', 'while 0 x = 1', 'for i = 0; i < 2; i++ { }', 'for v in [1] { }', 'for k, v in {} { }', 'for (v in [1] { }',
    'for v in [1]) { }', 'for (i = 0; i < 2; i++ { }', 'for i = 0; i < 2; i++) { }', 'if (x { }', 'if x) { }', 'while (0 { }', 'while 0) { }',
    'match 1 { 1 => 2 }', 'x = match 1 { 1 => 2 }', 'x = match (1 { 1 => 2 }', 'x = match 1) { 1 => 2 }', 'for (i = 0; i < 2) { }', 'for (i = 0) { }',
    'for () { }', 'for (;) { }', 'while () { }', 'if () { }', 'x = match () { 1 => 2 }', 'x = match { 1 => 2 }', 'if { }', 'while { x = 1 }',
    'for { }', 'if (1) (2) (3', 'for (v in) { }', 'for (in [1]) { }', 'for (v [1]) { }', 'for (v of [1]) { }', 'if (1) { x = 1', 'while (0) x = 1 }',
    'if [1] { }', 'if (1] { }', 'if {1} { }', 'for [i = 0; i < 1; i++] { }', 'x = match [1] { 1 => 2 }', 'x = match (1) ( 1 => 2 )',
    'x = match (1) [ 1 => 2 ]', 'x = match (1) { 1 = 2 }', 'x = match (1) { 1 -> 2 }', 'x = match (1) { 1 => }', 'x = match (1) { => 2 }',
    'x = match (1) { 1 2 }', 'x = match (1) 1 => 2', 'x = lab "a"', 'x = lab("a"', 'x = lab "a")', 'lab "a"', 'print("a"', 'print "a")', 'printf "a"',
]
NEAR_FUNC_STMTS = [
    'if (0) return 1; else return 2', 'if (a) return 1; else x = 2', 'return 1;; x = 2', 'return 1, 2', 'return (1,)',
]
NEAR_LOOP_STMTS = [
    'if (0) break; else continue', 'if (0) continue; else break', 'if (0) break; else x = 1', 'break;; x = 1', 'continue;;',
]
NEAR_TOP = [
    'function g(,) { }', 'function g(, a) { }', 'function g(a,, b) { }', 'function g a { }', 'function g(a { }', 'function g a) { }',
    'function g { }', 'function (a) { }', 'function g() x = 1', 'function g(a; b) { }', 'function g(a) { };', 'BEGIN { };', ';',
    'BEGIN { } ; END { }', 'BEGIN print "a"', 'else { }', 'BEGIN { } else { }', '{ print } else { print }', '$ > 1 else { }', 'function g[a] { }',
    'function g(1) { }', 'function g("a") { }', 'function g(a = 1) { }', 'function 1() { }', 'function BEGIN() { }', 'BEGIN, END { }',
    'BEGIN { } , END { }', '$ > 1, $ < 2 { print }', ', { print }', '{ print } ,', 'function g() { } function', 'function', 'function g',
    'BEGIN { print "a" } }', '{ { print }', 'BEGIN { print "a" } )', 'BEGIN { print "a" } ]',
]


# ---- (d) bytes that cannot start a token.  The lexer reads the text byte by byte; letters and digits are judged on the byte
# value, so 0xAA, 0xB5, 0xBA and 0xC0-0xFF (Latin-1 letters, UTF-8 lead bytes) may be part of a name: only "maybe" errors.
CERTAIN_BYTES = ([bytes([b]) for b in list(range(0, 9)) + [0x0B, 0x0C] + list(range(0x0E, 0x20)) + [0x7F]]
                 + [bytes([b]) for b in range(0x80, 0xC0) if b not in (0xAA, 0xB5, 0xBA)])
CERTAIN_SEQS = [b"\xef\xbb\xbf", b"\xff\xfe\x00\x00", b"\xc2\xa0", b"\xe2\x80\xa8", b"\xe2\x80\xa9", b"\xc2\x85", b"\xe2\x80\x8b",
                b"\x00\x00", b"\x00\x00\x00\x00", b"\xc0\x80", b"\xf0\x9f\x98\x80", b"\x1b[0m", b"\x00B\x00E\x00G\x00I\x00N", b"\x1a", b"\x04\n", b"\xe3\x80\x80"]
MAYBE_BYTES = [bytes([b]) for b in [0xAA, 0xB5, 0xBA] + list(range(0xC0, 0x100))] + [b"\xfe\xff", b"\xff\xfe", b"\xc3\xa9", b"\xce\xbb"]
BYTE_BASES = [
    "BEGIN { print \"ran\" }",
    "BEGIN { print \"B\" }\n{ print \"P\", $ }\nEND { print \"Z\" }",
    "function f(a) { print \"F\", a\n return a }\nBEGIN { f(1) }\n$ > 1 { print \"P\", f($) }\nEND { print \"Z\" }",
    "BEGIN { print \"B\" }\nBEGINFILE { print \"F1\" }\n{ print \"P\", $ }\nENDFILE { print \"G1\" }\nEND { print \"Z\" }",
    "BEGIN { print \"B\" } BEGIN { x = [1, 2]; print x } END { print \"Z\" }",
    "BEGIN { print \"s\" } # a comment\n{ print $ }",
]
BYTE_FOLLOW = [b"", b"\n", b" ", b" ) this is = not a { program\n", b"\nEND { print \"after\" }\n", b"BEGIN { print 1 }", b"}", b"\n\n# comment\n", b"\"", b"x = 1"]


def rule_ends(src):
    """offsets just after each top-level closing brace (no braces inside the strings of BYTE_BASES)"""
    out, d = [], 0
    for i, c in enumerate(src):
        if c == "{":
            d += 1
        elif c == "}":
            d -= 1
            if d == 0:
                out.append(i + 1)
    return out


def byte_splices(rng, quick):
    """yields (prog bytes, where, certain)"""
    out = []

    def place(seq, base, where, follow):
        b = base.encode()
        ends = rule_ends(base)
        if where == "end":
            return b + seq + follow
        if where == "after-final-newline":
            return b + b"\n" + seq + follow
        if where == "after-blank":
            return b + rng.choice([b" ", b"\t", b"\n\n", b" \n ", b"\r\n"]) + seq + follow
        if where == "between-rules":
            e = rng.choice(ends)
            return b[:e] + b"\n" + seq + follow + b"\n" + b[e:]
        if where == "glued-to-rule":
            e = rng.choice(ends)
            return b[:e] + seq + b[e:]
        if where == "start":
            return seq + follow + b"\n" + b
        toks = tokens(base)
        i = rng.randrange(1, len(toks))
        return "".join(toks[:i]).encode() + seq + "".join(toks[i:]).encode()

    places = ["end", "after-final-newline", "after-blank", "between-rules", "glued-to-rule", "start", "token-boundary"]
    for certain, seqs in ((True, CERTAIN_BYTES + CERTAIN_SEQS), (False, MAYBE_BYTES)):
        for seq in seqs:
            nul = seq[:1] == b"\x00"
            for where in places:
                if not certain and where not in ("end", "between-rules", "token-boundary"):
                    continue
                if nul:
                    combos = [(b, f) for b in BYTE_BASES for f in BYTE_FOLLOW]
                    if quick:
                        combos = rng.sample(combos, 12)
                else:
                    combos = [(rng.choice(BYTE_BASES), rng.choice(BYTE_FOLLOW)) for _ in range((2 if certain else 1) * (1 if quick else 6))]
                for base, follow in combos:
                    if where == "token-boundary" and "#" in base:
                        continue            # a boundary inside the comment is not a token boundary
                    out.append((place(seq, base, where, follow), "bytes %r %s, followed by %r" % (seq, where, follow), certain))
    # the same bytes where they are ordinary text: inside a string, inside a comment (no claim beyond 'a syntax error prints nothing')
    for seq in (CERTAIN_BYTES + CERTAIN_SEQS if not quick else rng.sample(CERTAIN_BYTES, 12) + [b"\x00", b"\xef\xbb\xbf"]):
        out.append((b"BEGIN { print \"a" + seq + b"b\" }\nEND { print \"Z\" }", "bytes %r inside a string" % seq, None))
        out.append((b"BEGIN { print \"a\" } # " + seq + b" x\nEND { print \"Z\" }", "bytes %r inside a comment" % seq, None))
        out.append((b"BEGIN { print \"a\" }\n# " + seq, "bytes %r inside a final comment" % seq, None))
    return out



# ---- (g) repeated elements.  Key layouts of an object literal: each entry is the key as written; several spell the same key.
DUP_KEYS = [
    ['n', '"n"'], ['"n"', 'n'], ['n', 'n'], ['"n"', '"n"'], ['n', 'n', 'n'], ['n', '"n"', 'n'], ['"n"', 'n', '"n"'],
    ['a', 'n', '"n"'], ['n', 'a', 'n'], ['n', '"n"', 'a'], ['a', 'n', 'b', '"n"', 'c'], ['n', 'm', '"m"', '"n"'], ['n', 'm', 'n', 'm'],
    ["'n'", 'n'], ['"a b"', '"a b"'], ['"µ"', 'µ', '"µ"'], ['length', '"length"'], ['n', 'N', 'n'], ['"1"', '"1"', '"01"'],
    ['a', 'b', 'c'],
]
DUP_FAULTS = ["(1 / 0)", "(7 % 0)", "(nofn(1))", "((5)(1))", "(\"a\" ~ \"(\")", "([1] < 2)", "$nope", "[1, 2][-9]", "(1 ~ 5)", "({a: 1}[[1]])",
              "printf(\"%d\", 1)", "\"\\q\"", "(qf = printf)", "(match ([1, 2]) { 0 => 1, q => 2 })"]
# hosts: (name, program template with %s for the statement, input, output in front of the statement, in a function)
DUP_HOSTS = [
    ("begin", "BEGIN { print \"before\"\n %s\n print \"after\" }\nEND { print \"Z\" }", [], "before\n"),
    ("end", "{ print \"P\", $ }\nEND { print \"E1\"\n %s\n print \"E2\" }", ["[1,2]"], "P 1\nP 2\nE1\n"),
    ("pattern", "BEGIN { print \"B\" }\n{ print \"P1\", $\n %s\n print \"P2\" }\nEND { print \"Z\" }", ["[7,8]"], "B\nP1 7\n"),
    ("function", "function fn(a) { print \"F1\"\n %s\n print \"F2\"\n return a }\nBEGIN { print \"B1\"\n fn(1)\n print \"B2\" }", [], "B1\nF1\n"),
    ("loop", "BEGIN { for (k = 0; k < 2; k++) { print \"K\", k\n %s\n print \"K2\" } }\nEND { print \"Z\" }", [], "K 0\n"),
    ("rule-pattern", "BEGIN { print \"B\" }\n[%s] { print \"hit\" }\nEND { print \"Z\" }", ["[7,8]"], "B\n"),
]
# statements around the literal: (name, template, output of the statement in front of the literal)
DUP_USES = [("assign", "x = %s", ""), ("print", "print lab(\"U\"), %s", "U\n"), ("arg", "x = lab(%s)", ""), ("member", "x = %s.n", ""),
            ("in-array", "x = [lab(\"U\"), %s]", "U\n"), ("in-object", "x = {v: %s, v: lab(\"never\")}", ""), ("for-in", "for (q in %s) { }", ""),
            ("match-arm", "x = match (1) { 1 => (%s) }", "")]


def dup_literals(rng, quick):
    """yields (literal text, output of its elements up to the fault, kind, fault index or None)"""
    out = []

    def elems(n, fi, fault):
        vals, exp = [], ""
        for i in range(n):
            if i == fi:
                vals.append(fault)
            else:
                vals.append("lab(\"L%d\")" % i)
                if fi is None or i < fi:
                    exp += "L%d\n" % i
        return vals, exp

    for keys in DUP_KEYS:
        n = len(keys)
        for fi in list(range(n)) + [None]:
            for fault in (rng.sample(DUP_FAULTS, 2 if quick else 6) if fi is not None else [None]):
                vals, exp = elems(n, fi, fault)
                sep = rng.choice([", ", ",\n ", ","])
                lit = "{" + sep.join("%s: %s" % kv for kv in zip(keys, vals)) + rng.choice(["", "", ","]) + "}"
                out.append((lit, exp, "object literal with keys " + " ".join(keys), fi))
        # the repeated key inside a nested literal, itself the value of a repeated key
        for fi in range(n):
            fault = rng.choice(DUP_FAULTS)
            vals, exp = elems(n, fi, fault)
            inner = "{" + ", ".join("%s: %s" % kv for kv in zip(keys, vals)) + "}"
            lit = rng.choice(["{o: lab(\"O\"), o: %s, \"o\": lab(\"never\")}", "{o: lab(\"O\"), \"o\": [%s, lab(\"never\")]}", "[lab(\"O\"), {o: %s, o: lab(\"never\")}]"]) % inner
            out.append((lit, "O\n" + exp, "nested object literal with keys " + " ".join(keys), fi))
    # the same element text repeated: array literals, argument lists
    for n in (2, 3, 5):
        for fi in range(n):
            for fault in rng.sample(DUP_FAULTS, 2 if quick else 6):
                same = rng.choice(["lab(\"S\")", "lab(1)", "lab(\"\")"])
                exp = same[4:-1].strip("\"") + "\n"
                vals = [same] * n
                vals[fi] = fault
                # the fault text itself repeated after the fault: the first one stops the run
                if rng.random() < 0.3 and fi < n - 1:
                    vals[fi + 1] = fault
                out.append(("[" + ", ".join(vals) + "]", exp * fi, "array literal repeating %s" % same, fi))
                out.append(("fn3(" + ", ".join(vals) + ")", exp * fi, "argument list repeating %s" % same, fi))
                out.append(("[1].push(" + ", ".join(vals) + ")", exp * fi, "method argument list repeating %s" % same, fi))
    return out


def build(host, nest, stmt, fn2=True):
    body = nest[1] % stmt
    prog = PRE + ("function fn2(a, b, c) { return b }\n" if fn2 else "") + host[1] % body
    return prog


class C11(Check):
    pid = "C11"
    props = ["C11_faults.v"]
    rule = ("(a) tracing programs with a syntax error spliced at a statement or token boundary (static rejections, illegal tokens, random "
            "token deletions/insertions), after 0-40 valid rules: syntax outcome implies empty stdout, grammatical errors must be syntax "
            "errors; (b) 39 runtime fault kinds x 53 evaluated positions (operand slots, arguments, literal elements, indexes, "
            "conditions, every for clause, for-in iterable, match subject/body, return, rule pattern, selector) x 10 hosts (rule kinds, "
            "functions) x 10 nests (if/else, loops, match block), each paired with a twin whose fault is replaced by a marker-printing call: "
            "outcome runtime and stdout = the twin's stdout cut before the first marker; (c) 43 value-dependent faults at a site evaluated "
            "several times, bad only on a later evaluation, delivered by 9 mechanisms (loops over operands, repeated calls, records); (d) every byte "
            "no token starts with (controls, DEL, 0x80-0xBF, BOMs, multi-byte sequences) after complete rules (end, after the final newline, "
            "between rules, glued to a rule, start, token boundary) followed by nothing / rules / junk: syntax error and no output; (e) a container "
            "compared with itself (same variable, parameter, path, element, alias) by all six operators faults like any container comparison. "
            "(f) %d near-miss forms the grammar refuses (';' before else for every kind of if-body, else without if, doubled or misplaced "
            "';', stray ',' in argument/element/pattern/parameter lists, missing or mismatched parentheses in if/while/for/match/function "
            "headers), as statements in every host and nest and between rules, after rules and statements that print: syntax error, no output. "
            "(g) object literals writing one key 2-3 times (identifier / string spellings, next to other keys, nested), array literals, argument and "
            "method-argument lists repeating one element text, a fault at every element index, used in 8 statement shapes in 6 hosts: runtime error "
            "and exactly the output of the elements in front of the fault. "
            % (len(NEAR_STMTS) + len(NEAR_FUNC_STMTS) + len(NEAR_LOOP_STMTS) + len(NEAR_TOP)) +
            "non-trivial = output before the fault is "
            "non-empty and a statement follows it")

    def project(self, r):
        if r.outcome == "crash":
            return ANY
        return (r.outcome, r.stdout, r.depth)

    def generate(self, rng, tier):
        quick = tier == "quick"
        cases = []
        kk = [0]

        def add(prog, inputs, sels, meta, tags=(), nontrivial=True):
            cid = "f%d" % kk[0]
            kk[0] += 1
            if isinstance(prog, bytes):
                meta = dict(meta, prog=prog.decode("latin-1"), prog_hex=prog.hex(), inputs=inputs, selectors=sels)
            else:
                meta = dict(meta, prog=prog, inputs=inputs, selectors=sels)
            cases.append(Case(cid, simple_run(cid, prog, inputs, sels, True), meta, nontrivial, tags))
            return cid

        # ------------------------------------------------------------ (b) runtime faults
        combos = []
        for h in HOSTS:
            for n in NESTS:
                for p in POSITIONS:
                    if p[2] and not h[2]:
                        continue
                    combos.append((h, n, p))
        twins = {}

        def pair(h, n, p, fname, fexpr, stmt_fault=False):
            inputs = rng.choice(INPUTS)
            key = (h[0], n[0], p[0], tuple(inputs))
            if key not in twins:
                hp = build(h, n, p[1] % "mk()")
                twins[key] = add(hp, inputs, [], {"role": "twin", "host": h[0], "nest": n[0], "position": p[0]}, ("twin",), False)
            fp = build(h, n, fexpr if stmt_fault else p[1] % fexpr)
            add(fp, inputs, [], {"role": "faulty", "host": h[0], "nest": n[0], "position": p[0], "fault": fname, "twin": twins[key]}, ("faulty",))

        fault_items = list(FAULTS.items())
        if quick:
            # every position, host, nest and fault at least a few times; the two historical drop sites always
            chosen = rng.sample(combos, 650)
            for h, n, p in chosen:
                fname, fexpr = rng.choice(fault_items)
                pair(h, n, p, fname, fexpr)
            for p in POSITIONS:
                h, n = rng.choice([x for x in HOSTS if x[2] or not p[2]]), rng.choice(NESTS)
                for fname, fexpr in rng.sample(fault_items, 5):
                    pair(h, n, p, fname, fexpr)
            for fname, fexpr in fault_items:
                for _ in range(4):
                    h, n, p = rng.choice(combos)
                    pair(h, n, p, fname, fexpr)
        else:
            for h, n, p in combos:
                for fname, fexpr in rng.sample(fault_items, 8):
                    pair(h, n, p, fname, fexpr)
        stmt_pos = ("stmt-seq", "%s", False)
        for h in HOSTS:
            for n in NESTS:
                for fname, fstmt in (rng.sample(list(STMT_FAULTS.items()), 2) if quick else STMT_FAULTS.items()):
                    pair(h, n, stmt_pos, "stmt:" + fname, fstmt, stmt_fault=True)
        # rule pattern and selector positions
        for fname, fexpr in fault_items:
            for wrap in ("%s", "!%s", "1 + %s", "[%s]", "$ > 0 && %s"):
                inputs = rng.choice(INPUTS)
                tmpl = PRE + "BEGIN { print \"B\" }\n{ print \"P0\", $ }\n%s { print \"P1\", $ }\n{ print \"Q\", $ }\nEND { print \"Z\" }"
                t = add(tmpl % (wrap % "mk()"), inputs, [], {"role": "twin", "position": "rule-pattern"}, ("twin",), False)
                add(tmpl % (wrap % fexpr), inputs, [], {"role": "faulty", "position": "rule-pattern", "fault": fname, "twin": t}, ("faulty",))
                if quick and rng.random() < 0.6:
                    break
            sel_fault = None if "inf(" in fexpr else fexpr       # selectors cannot call the program's functions
            if sel_fault:
                # the selector runs before any rule sees the value: the twin marks that moment in its first BEGINFILE rule
                prog = PRE + "BEGIN { print \"B\" }\nBEGINFILE { print \"@@\" }\n{ print \"P\", $ }\nEND { print \"Z\" }"
                for sels_h, sels_f in (([("$")], [sel_fault]), (["$[0]"], ["[%s]" % sel_fault]), (["$"], ["1 + %s" % sel_fault])):
                    inputs = rng.choice([["[[1],[2]]"], ["[[3]]\n[[4]]"]])
                    t = add(prog, inputs, sels_h, {"role": "twin", "position": "selector"}, ("twin",), False)
                    add(prog, inputs, sels_f, {"role": "faulty", "position": "selector", "fault": fname, "twin": t}, ("faulty",))

        # ------------------------------------------------------------ (c) faulty only on a later evaluation of the same site
        for prog, inputs, exp, meta in later_fault_cases(rng, quick):
            add(prog, inputs, [], dict(meta, expected_outcome="runtime", expected_stdout=exp), ("later-fault",))

        # ------------------------------------------------------------ (a) syntax errors
        def prefix_rules():
            n = rng.choice([0, 0, 1, 3, 40])
            return "".join("BEGIN { print \"pre\", %d }\n" % i for i in range(n))

        nsyn = 350 if quick else 6000
        for _ in range(nsyn):
            h, n = rng.choice(HOSTS), rng.choice(NESTS)
            k = rng.random()
            if k < 0.45:
                s = rng.choice(SYNTAX_STMTS)
            else:
                s, ctx = rng.choice(CTX_SYNTAX)
                if ctx == "nofunc":
                    h = rng.choice([x for x in HOSTS if not x[2]])
                else:
                    n = rng.choice([x for x in NESTS if not x[2]])
            before = rng.choice(["x = 1", "print \"S1\"", "lab(\"S1\")", "mk()"])
            after = rng.choice(["x = 2", "print \"S2\"", "lab(\"S2\")"])
            stmt = rng.choice(["%s\n %s\n %s" % (before, s, after), "%s\n %s" % (before, s), s, "%s; %s" % (before, s)])
            prog = prefix_rules() + build(h, n, stmt)
            add(prog, rng.choice(INPUTS), [], {"role": "syntax", "splice": s, "host": h[0], "nest": n[0]}, ("syntax-certain",))
        # (f) near misses, after rules and statements that print
        for forms, kind in ((NEAR_STMTS, "stmt"), (NEAR_FUNC_STMTS, "func"), (NEAR_LOOP_STMTS, "loop"), (NEAR_TOP, "top")):
            for s in forms:
                for rep in range(2 if quick else 12):
                    if kind == "top":
                        base = rng.choice(BYTE_BASES[:5])
                        ends = [0] + rule_ends(base)
                        e = ends[-1] if rep == 0 else rng.choice(ends)
                        prog = prefix_rules() + base[:e] + "\n" + s + "\n" + base[e:]
                        add(prog, rng.choice(INPUTS), [], {"role": "syntax", "splice": "near miss %r at top level" % s}, ("syntax-certain", "near-miss"))
                        continue
                    h = rng.choice([x for x in HOSTS if x[2]] if kind == "func" else HOSTS)
                    n = rng.choice([x for x in NESTS if x[2]] if kind == "loop" else NESTS)
                    before = rng.choice(["x = 1", "print \"S1\"", "lab(\"S1\")", "mk()"])
                    after = rng.choice(["x = 2", "print \"S2\"", "lab(\"S2\")"])
                    stmt = "%s\n %s\n %s" % (before, s, after) if rep == 0 else rng.choice(["%s\n %s\n %s" % (before, s, after), "%s\n %s" % (before, s), s, "%s; %s" % (before, s)])
                    prog = (prefix_rules() if rep else "BEGIN { print \"pre\" }\n") + build(h, n, stmt)
                    add(prog, rng.choice(INPUTS), [], {"role": "syntax", "splice": "near miss %r" % s, "host": h[0], "nest": n[0]}, ("syntax-certain", "near-miss"))
        ntok = 350 if quick else 6000
        for _ in range(ntok):
            h, n, p = rng.choice(combos)
            base = prefix_rules() + build(h, n, p[1] % "mk()")
            toks = tokens(base)
            i = rng.randrange(len(toks) + 1)
            k = rng.random()
            if k < 0.4:
                bad = rng.choice(BAD_TOKENS)
                prog = "".join(toks[:i]) + bad + "".join(toks[i:])
                add(prog, rng.choice(INPUTS), [], {"role": "syntax", "splice": "token %r at token boundary %d" % (bad, i)}, ("syntax-certain",))
            else:
                # deletion / insertion / duplication: may or may not still be a program; a syntax outcome must come with no output
                if k < 0.7 and toks:
                    j = min(i, len(toks) - 1)
                    prog = "".join(toks[:j] + toks[j + 1:])
                    what = "deleted token %r" % toks[j]
                elif k < 0.9:
                    ins = rng.choice(["return", "break", "continue", "=", "1", "(", ")", "{", "}", ",", "print", "in", "=>", "function", "BEGIN", "else", "5 ="])
                    prog = "".join(toks[:i]) + " " + ins + " " + "".join(toks[i:])
                    what = "inserted %r" % ins
                else:
                    cut = rng.randrange(len(base))
                    prog = base[:cut]
                    what = "truncated at byte %d" % cut
                add(prog, rng.choice(INPUTS), [], {"role": "mutant", "splice": what}, ("syntax-maybe",), False)
        # ------------------------------------------------------------ (d) bytes that start no token, after valid rules
        for prog, what, certain in byte_splices(rng, quick):
            if certain:
                add(prog, rng.choice(INPUTS), [], {"role": "syntax", "splice": what}, ("syntax-certain", "bytes"))
            else:
                add(prog, rng.choice(INPUTS), [], {"role": "mutant", "splice": what}, ("syntax-maybe", "bytes"), False)
        # ------------------------------------------------------------ (h) number spellings that are no number: an exponent marker with a
        # sign and no digits (`2e+`), doubled dots, a sign glued after a dot -- in executed and in never-executed positions; a program
        # holding one is rejected before anything runs. Spellings a dialect might accept (`1e5`, `0x10`, `1_000`) are "maybe" cases:
        # whatever the verdict, a syntax outcome comes with no output, and model and implementation agree
        for lit, certain in [("2e+", True), ("7E-", True), ("1e+", True), ("2e-", True), ("1.5e+", True), ("3e+ ", True), ("1..2", True), ("1.2.3", True),
                             ("1.", True), ("1e", False), ("1e5", False), ("1.5e3", False), ("1e+2", False), ("0x10", False), ("1_000", False), ("2E-3", False)]:
            for tmpl in ["BEGIN { print \"start\"; if (0) { x = %s } print \"done\" }", "BEGIN { print \"start\"\n x = %s\n print \"done\" }",
                         "function never() { return %s }\nBEGIN { print \"start\" }\n{ print }", "{ print \"rec\" }\nEND { if (false) print %s }",
                         "BEGIN { print \"start\" }\n$ > 5 && false && %s { print }"]:
                prog = tmpl % lit
                if certain:
                    add(prog, rng.choice(INPUTS), [], {"role": "syntax", "splice": "malformed number spelling %r" % lit}, ("syntax-certain", "number-spelling"))
                else:
                    add(prog, rng.choice(INPUTS), [], {"role": "mutant", "splice": "dialect number spelling %r" % lit}, ("syntax-maybe", "number-spelling"), False)
        # ------------------------------------------------------------ (g) repeated keys / repeated elements
        for lit, exp, what, fi in dup_literals(rng, quick):
            hosts = DUP_HOSTS if not quick else rng.sample(DUP_HOSTS, 2)
            for hname, tmpl, inputs, hout in hosts:
                uname, utmpl, uout = ("pattern", "%s", "") if hname == "rule-pattern" else rng.choice(DUP_USES)
                if "push(" in lit and uname in ("member", "for-in"):
                    uname, utmpl, uout = DUP_USES[0]
                prog = PRE + "function fn3(a, b, c, d, e) { return [a, b, c, d, e] }\n" + tmpl % (utmpl % lit)
                meta = {"role": "repeated-elements", "fault": "element %s of %s" % (fi, what), "position": "%s in %s" % (uname, hname)}
                if fi is not None:
                    meta.update(expected_outcome="runtime", expected_stdout=hout + uout + exp)
                add(prog, inputs, [], meta, ("repeated-elements",), fi is not None)
        # a mutant may loop up to the fuzzing limit while printing; such output-heavy runs are judged on the implementation alone
        mut = {c.id: c for c in cases if c.meta["role"] == "mutant"}
        pre, light = prescreen({i: c.line for i, c in mut.items()})
        for i, c in mut.items():
            if i not in light and not self.oracle(c, pre[i]):
                c.meta["impl_only"] = "output-heavy: judged on the implementation alone (%s, %d bytes of output)" % (pre[i].outcome, len(pre[i].stdout))
                c.meta["line"] = c.line
                c.line = None
        return cases

    # ------------------------------------------------------------------
    def oracle(self, case, impl):
        why = abnormal(impl)
        if why:
            return why
        if impl.outcome in ("timeout", "noresult", "badcase"):
            return None
        role = case.meta.get("role")
        if impl.outcome == "syntax" and impl.stdout and not case.meta.get("selectors"):
            return "a program with a syntax error produced output %r" % impl.stdout
        if "expected_stdout" in case.meta and (impl.outcome, impl.stdout) != (case.meta["expected_outcome"], case.meta["expected_stdout"].encode()):
            return "fault %s at %s: %s %r, documented %s %r" % (case.meta.get("fault"), case.meta.get("position"), impl.outcome, impl.stdout,
                                                               case.meta["expected_outcome"], case.meta["expected_stdout"])
        if role == "syntax" and impl.outcome != "syntax":
            return "spliced syntax error (%s) not reported: outcome %s, stdout %r" % (case.meta["splice"], impl.outcome, impl.stdout)
        return None

    def extra(self, ctx):
        impl = ctx["impl"]
        viol = []
        stats = {"fault_pairs": 0, "position_not_reached": 0}
        byid = {c.id: c for c in ctx["cases"]}
        for c in ctx["cases"]:
            if c.meta.get("role") != "faulty":
                continue
            f = RunRes(impl.get(c.id, []))
            h = RunRes(impl.get(c.meta["twin"], []))
            if f.outcome in ("timeout", "noresult", "badcase", "crash") or h.outcome in ("timeout", "noresult", "badcase", "crash"):
                continue
            stats["fault_pairs"] += 1
            hout = h.stdout
            i = 0 if hout.startswith(MARK) else hout.find(b"\n" + MARK)
            if i < 0:
                # the position is never evaluated: the two programs must behave alike
                stats["position_not_reached"] += 1
                if (f.outcome, f.stdout) != (h.outcome, h.stdout):
                    viol.append((c, "position never evaluated in the twin, yet the runs differ: %s %r vs %s %r" % (f.outcome, f.stdout, h.outcome, h.stdout)))
                continue
            want = hout[:i + 1] if i > 0 else b""
            if (f.outcome, f.stdout) != ("runtime", want):
                # make the stored replay self-contained: the twin's verdict travels with the case
                c = Case(c.id, c.line, dict(c.meta, expected_outcome="runtime", expected_stdout=want.decode("utf-8", "replace")), True, c.tags)
            if f.outcome != "runtime":
                viol.append((c, "fault %s at %s not reported: outcome %s, stdout %r (documented: runtime error after %r)"
                             % (c.meta.get("fault"), c.meta.get("position"), f.outcome, f.stdout, want)))
            elif f.stdout != want:
                viol.append((c, "fault %s at %s: stdout %r, documented %r (everything before the fault, nothing after it)"
                             % (c.meta.get("fault"), c.meta.get("position"), f.stdout, want)))
        return viol, stats


CHECK = C11()
