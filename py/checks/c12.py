"""C12: reported error positions are consistent with, and point into, the program text."""
from framework import Check, Case
import re
from jqlib import simple_run, hx, unhx, RunRes
from checklib import run_cli, Scratch, pmap

FILL_TOP = [
    "# a comment",
    "# commentaire élégant — ünïcode ©",
    "",
    "   ",
    "\t",
    "function g2(a, b) { return a + b }",
    "function g3() { return 'é' }",
    "END { z9 = 1 }",
    "BEGINFILE { z8 = \"ü\" }",
    "$.never == 12345 { print \"no\" }",
    "BEGINFILE { z7 = \"top\nlevel\" }",
]
FILL_STMT = [
    "x1 = 1",
    "\tx2 = 2   # tab and comment",
    "  s1 = \"héllo wörld\"",
    "",
    "  # only a comment — ©",
    "s2 = 'a' + \"b\"   ",
    "arr1 = [1, 2, 3]",
    "if (x1 > 5) { x3 = 3 }",
    "µ = 5",
    "  o1 = {k: 1, \"é\": 2}",
    "\t\tx4 = g1(4)",
    "for (i1 = 0; i1 < 2; i1++) { x5 = i1 }",
    "s3 = \"日本語\"; s4 = '€'",
    "s8 = \"multi\nline string\"",
    "s9 = 'a\n\nb'   # after a literal that spans lines",
    "r8 = /p\nq/",
]
BEFORE = ["", "", "  ", "\t", "x6 = 1; ", "s5 = \"é©\"; ", "\t s6 = '日本' ; ", "x7 = [1, 2]; ", "s7 = \"first\nsecond\"; ", "r7 = /x\ny/; x6 = 1; "]
AFTER = ["", "", " ", " # trailing ©", " ; x8 = 2", " ;x9 = \"ü\" # c"]
ILLEGAL = ["@", "`", "?", "^", "\\", "& ", "| ", "é", "ü", "€", "日", "©", "×", "😀", "\x01", "\x7f"]

# ---- very long lines: one-statement pieces (no line breaks inside) that pad a program line to a chosen width
LONG_PIECES = ["x6 = 1; ", "s5 = \"é©\"; ", "\t", "names = [\"item01\", \"item02\", \"item03\"]; ", "s6 = '日本語 €'; ", "   ", "o7 = {k: [1, 2], \"ü\": 'v'}; ",
               "\t \t", "if (x6 > 5) { x3 = 3 } ", "x7 = x6 * (2 + 3) - 4; ", "s7 = \"😀 wide\" + 'x'; "]
LONG_WIDTHS = [200, 201, 240, 300, 450, 1000, 2500, 5000]
# loops that only the harness' iteration cap ends: never handed to the real binary
ENDLESS = ("while (1) { }", "for (i9 = 0; 1; i9++) { }")
# the three diagnostic lines of cli/cli.go: two blanks + quoted line, two blanks + caret right-aligned in a field of col+1, the message
DIAG_RE = re.compile(rb"\A  ([^\n]*)\n  ( *)\^\n(syntax|runtime) error on line ([0-9]+): ")

# ---- what a program text may START with.  LEAD_ILLEGAL: byte sequences no token can start with, (bytes, length of the first
# character): byte order marks, other multi-byte sequences, control bytes.  The text is read byte by byte, so the fault is the first
# byte of the sequence that cannot be part of a name, always inside the first character.
LEAD_ILLEGAL = [(b"\xef\xbb\xbf", 3), (b"\xef\xbb\xbf\xef\xbb\xbf", 3), (b"\xc2\xa0", 2), (b"\xe2\x80\xa8", 3), (b"\xe2\x80\x8b", 3), (b"\xe2\x81\xa0", 3),
                (b"\x01", 1), (b"\x0b", 1), (b"\x0c", 1), (b"\x1b[0m", 1), (b"\x7f", 1), (b"\x80", 1), (b"\xbf", 1), (b"\x1a", 1), (b"\x08", 1),
                ("é".encode(), 2), ("€".encode(), 3), ("日".encode(), 3), ("😀".encode(), 4), (b"\xc2\x85", 2), (b"\xe3\x80\x80", 3)]
# LEAD_OK: blank lines, blanks, comments (with multi-byte text, with a byte order mark inside): part of the text like any other line
LEAD_OK = ["\n", "\n\n\n", "\r\n", "\r\n\r\n\r\n", "  ", "\t", " \t \n", "# comment\n", "# é © 日本語 😀\n", "#\n", "#\n#\n", "# \ufeff mark inside a comment\n",
           "#!/usr/bin/env jqawk -f\n", "\n# c\n\n", "   # indented comment\r\n\t\r\n", " \n  \n   \n", "#" + "c" * 300 + "\n", "\n" * 40, "# a\n" * 25, "\t\t\t\t",
           "#\ufeff\n", "\n # é\n  "]
LEAD_PROGS = ["BEGIN { x = 1 }", "BEGIN { x = 1 }\n{ print }\nEND { print x }\n", "function g1(a) { return a }\nBEGIN {\n  x = g1(2)\n}\n", "{ print $ }", "# c\nBEGIN { s = \"é\" }\n"]


def long_pad(rng, width):
    """statements (tabs, multi-byte strings) of exactly `width` bytes, ending after a ';' and blanks"""
    out = ""
    while True:
        piece = rng.choice(LONG_PIECES)
        if len((out + piece).encode()) > width - 8:
            break
        out += piece
    out += "x6 = 1;"
    return out + " " * (width - len(out.encode()))


def lexical_faults(rng):
    """(kind, text, (start, end) byte span of the illegal character inside text, expected outcome, exact); the hosts mark the place
    of the character with \\0: every kind of position a token can start at"""
    out = []
    hosts = ["\0", "x = \0", "print 1, \0", "print \0", "x = [1, \0]", "x = g1(1, \0)", "for (k, \0 in arr1) { }", "for (k in \0) { }",
             "x = 1; \0", "while (x1 < 0) { break \0 }", "while (x1 < 0) { continue \0 }", "x = 1 + \0", "x = (\0)", "x = {a: \0}",
             "x = {a: 1, \0}", "if (\0) { }", "x = arr1[\0]", "x = -\0", "x = s1.\0", "next \0", "exit \0", "x = match (1) { 1 => 2, \0 }",
             "x \0 1", "x = 1 \0", "if (x1) x = 1 else \0", "x = x1 is \0", "x = \"s\" \0", "x = 3\0", "x = y\0", "x = 2.\0"]
    for h in hosts:
        ch = rng.choice(ILLEGAL)
        if h.endswith("y\0") or h.endswith("3\0") or h.endswith("2.\0"):
            ch = rng.choice(["@", "`", "?", "^", "\\", "\x01"])     # glued to a token: only characters that cannot extend it
        i = h.index("\0")
        text = h.replace("\0", ch)
        n = len(ch.rstrip(" ").encode())
        start = len(h[:i].encode())
        out.append(("illegal character", text, (start, start + n), "syntax", True))
    return out


SYNTAX_FAULTS = [
    "if (x1 > 1 { y = 1 }", "while (x1 > 5 { x1++ }", "y = (1 + 2 ; z = 1", "y = g1(1, 2 ; z = 1", "arr1[1 = 2", "y = [1, 2 ; z = 1",
    "y = 1 )", "y = 1 ]", "else y = 1", "y = = 1", "y = * 2", "print 1 2", "y = 1 z = 2", "=> 1", "y = 1 + ; z = 2", "y = 5 5",
    "return 5", "return", "break", "continue", "if (x1) { break }", "1 = 2", "\"s\" = 1", "[1] = 2", "x1 + x2 = 3", "true = 1", "null = 1",
    "y = {a 1}", "y = {1: 2}", "for (i = 0; i < 3) { }", "for (i = 0 i < 3; i++) { }", "for i in arr1 { }",
    "function f9() { }", "if x1 > 1 { }", "print 1,, 2", "y = x1 is 5", "y = x1 is", "y = arr1.5", "y = match (1) { 1 2 }", "y = match 1 { }",
    "y = match (1) { 1 => }", "while () { }", "y = g1(,)", "y = !", "x1 ++ ++ 5", "y = 1 +* 2", "print (1", "if (x1) else y = 1",
    "y = [1 2]", "y = x1 ? 1", "y == ", "y = (1))", "for (k, 5 in arr1) { }", "for (5 in arr1) { }",
]
# faults that the parser can only notice at the token after them: a token must follow on the same line
NEEDS_FOLLOW = ("y = x1 is", "y == ", "y = !", "print (1")
# texts that would continue the previous line's statement (expressions ignore line breaks): a ';' must precede on the same line
NEEDS_SEMI = ("[1] = 2", "else y = 1")

RUNTIME_FAULTS = [
    "q = 1 / 0", "q = 7 % 0", "d0 = 0; q = 1 / d0", "n5 = 5; n5(1)", "nofn(1)", "q = \"a\" ~ \"(\"", "q = \"a\" !~ \"[z\"", "q = \"a\" ~ 5",
    "q = [1] < 2", "q = 1 == {}", "for (k in 5) { }", "for (k, v in null) { }", "n6 = 5; n6.y = 1",
    "printf(\"%d\", 1)", "printf(\"%s\", 1)", "printf(1)", "printf()", "printf(\"%5\")", "printf(\"%f\", \"é\")", "q = $nope", "print $file2",
    "q = \"a\\qb\"", "print 'é\\'", "q = g1", "q = [g1]", "q = {k: g1}", "g1(printf)", "arr7 = [1]; q = arr7[-5]", "o8 = {a: 1}; q = o8[true]",
    "q = num(1, 2)", "q = json()", "q = json(g1)", "q = \"abc\".split()", "q = [1].push()", "q = match (1) { -1 => 2 }",
    "q = match ([1]) { 1 => 2 }", "arr7 = [1]; arr7[2000000] = 1", "q = {} < 1", "null.x = 1", "q = 1; q.a.b = 2",
    "printf(\"%99999999s\", \"a\")", "q = g1(1)(2)", "q = x1.floor(1)(2)", "for ($zz in [1]) { }", "while (1) { }", "for (i9 = 0; 1; i9++) { }",
    "next", "if (1) next", "g1(1); next",
]

# ---- runtime faults raised THROUGH a compound assignment operator (+= -= *= /=) or ++ / --.  Each entry is (setup, statement):
# the setup runs first on the same line, the fault is the statement, and the reported column must fall inside the statement.
COMPOUND_OPS = ["+=", "-=", "*=", "/="]
# assignable targets of every shape (setup, target text)
CTARGETS = [("q = 5; ", "q"), ("", "qq"), ("o8 = {a: 1}; ", "o8.a"), ("o8 = {a: {b: 2}}; ", "o8.a.b"), ("arr7 = [1]; ", "arr7[0]"),
            ("arr7 = [1, 2]; ", "arr7[5]"), ("o8 = {}; ", "o8.a.b.c"), ("o8 = {}; ", "o8[\"é\"]"), ("arr7 = [[4, 2]]; ", "arr7[0][1]"),
            ("o8 = {k: [8]}; ", "o8.k[0]"), ("µ = 3; ", "µ"), ("o8 = {}; ", "o8['k' + 1]")]
CZEROS = ["0", "0.0", "null", "\"a\"", "[]", "(1 - 1)", "nosuchvar", "-0", "{}", "\"a\".length() - 1", "0 * 7"]
# statements around a compound assignment that divides by zero; T is replaced by the target and Z by the zero
CHOSTS = ["T /= Z", "T /= Z", "y = (T /= Z)", "print T /= Z", "y = g1(T /= Z)", "for (i9 = 1; i9 < 2; T /= Z) { }", "while (T /= Z) { }",
          "if (T /= Z) { y = 1 }", "y = arr1[T /= Z]", "y = [1, T /= Z]", "y = {k: T /= Z}", "T += T /= Z", "T /= 1; T /= Z", "T *= 2; T /= Z",
          "y = 1 + (T /= Z)", "y = !(T /= Z)", "print 1, (T /= Z), 2", "y = match (T /= Z) { 1 => 2 }", "T++; T /= Z"]
# targets whose store fails (setup, target)
CBADSTORE = [("n6 = 5; ", "n6.y"), ("", "null.x"), ("q = 1; ", "q.a.b"), ("arr7 = [1]; ", "arr7[2000000]"), ("arr7 = [1]; ", "arr7[-5]"),
             ("s = \"x\"; ", "s.length"), ("s = \"é\"; ", "s.k"), ("b = true; ", "b.k.j"), ("arr7 = [1]; ", "arr7.k"), ("o8 = {a: 5}; ", "o8.a.b"),
             ("arr7 = [[1]]; ", "arr7[0][3000000]")]
# targets on which only ++ / -- fail (the store of the new number fails or the target cannot be evaluated)
CBADINC = [("", "$nope"), ("", "$file9"), ("q = [1]; ", "q.push"), ("", "arr1[1 / 0]"), ("o8 = {}; ", "o8[nofn(1)]"),
           ("", "arr1[7 % 0]"), ("", "o1[[1] < 2]")]
# right operands that fail
CBADRHS = ["1 / 0", "nofn(1)", "[1] < 2", "$nope", "7 % 0", "g1(1)(2)", "\"a\" ~ \"(\"", "arr1[-9]", "num(1, 2)", "(q /= 0)"]


def compound_faults(rng):
    """list of (what, setup, statement)"""
    out = []
    # (1) the division by zero is raised by /= itself: every target x every host, a zero of every kind
    for setup, tgt in CTARGETS:
        for host in rng.sample(CHOSTS, 5):
            out.append(("/= by zero", setup, host.replace("T", tgt).replace("Z", rng.choice(CZEROS))))
    for host in CHOSTS:
        setup, tgt = rng.choice(CTARGETS)
        out.append(("/= by zero", setup, host.replace("T", tgt).replace("Z", rng.choice(CZEROS))))
    for z in CZEROS:
        setup, tgt = rng.choice(CTARGETS)
        out.append(("/= by zero", setup, "%s /= %s" % (tgt, z)))
    out.append(("/= by a zero variable", "d0 = 0; q = 2; ", "q /= d0"))
    out.append(("/= by a zero member", "o8 = {z: 0}; ", "o8.n /= o8.z"))
    # (2) the store of a compound assignment fails: every operator x every unstorable target
    for op in COMPOUND_OPS:
        for setup, tgt in CBADSTORE:
            out.append(("%s into a target that cannot be stored" % op, setup, "%s %s %s" % (tgt, op, rng.choice(["1", "2.5", "\"s\"", "x1", "[1]"]))))
    # (3) the right operand of a compound assignment fails: every operator x every failing operand
    for op in COMPOUND_OPS:
        for rhs in CBADRHS:
            setup, tgt = rng.choice(CTARGETS)
            out.append(("%s with a failing right operand" % op, setup, "%s %s %s" % (tgt, op, rhs)))
    # (4) ++ / -- , prefix and postfix, on targets that cannot be stored or evaluated
    for op in ("++", "--"):
        for setup, tgt in CBADSTORE + CBADINC:
            for form in (tgt + op, op + tgt):
                out.append(("%s on a target that cannot be stored" % op, setup, form))
            out.append(("%s on a target that cannot be stored" % op, setup, rng.choice(["y = %s%s", "print %s%s", "y = g1(%s%s)", "y = [%s%s]", "if (%s%s) { }"]) % (tgt, op)))
    return out


class C12(Check):
    pid = "C12"
    props = ["C12_positions.v", "C12_token_in_node.v"]
    position = True
    rule = ("multi-line programs (blank lines, comments, tabs, CRLF, non-ASCII in strings/comments/identifiers) with ONE fault planted at "
            "a known line and byte span: lexical (illegal character, also inside a multi-byte character and after , ; in break ..., "
            "unterminated string / regex), syntactic (%d malformed statements), runtime (%d fault statements of every kind, stray next directly and through a function)" % (len(SYNTAX_FAULTS), len(RUNTIME_FAULTS)) + " ; oracle: "
            "quoted line == line N of the text, N == planted line, column inside the planted span (on the character for an illegal "
            "character); plus faults spanning lines and LINECOL on random (text, position) pairs (text consistency, exact line/column "
            "for positions on a byte of a line); texts that START with byte sequences no token can start with (byte order marks, multi-byte "
            "sequences, control bytes: the fault is that first character, line 1, whatever follows) or with blank lines / blanks / comments "
            "followed by a fault on the same line or 1 / 3 lines later (line and column count every byte of the text), library fields and the "
            "binary's diagnostic; non-trivial = at least 3 lines and the fault is not on the first")

    def project(self, r):
        if len(r.raw) == 3:             # LINECOL
            return tuple(r.raw)
        return r.proj(self.position, self.io)

    # ------------------------------------------------------------------ generation
    def layout(self, rng, fault_line, where, eol=None, last=False):
        """program lines around a fault line. where: 'begin' (inside the first BEGIN block: executed), 'top' (top level).
        returns (bytes, 1-based line number of the fault line)"""
        eol = eol or rng.choice(["\n", "\n", "\n", "\r\n"])
        lines = ["function g1(a) { return a }"]
        for _ in range(rng.choice([0, 0, 1, 2, 4])):
            lines.append(rng.choice(FILL_TOP))
        rng.shuffle(lines)
        if where == "begin":
            lines.append(rng.choice(["BEGIN {", "BEGIN\t{   # start", "BEGIN {  x0 = 0"]))
            for _ in range(rng.choice([0, 1, 2, 3, 6, 12])):
                lines.append(rng.choice(FILL_STMT))
            lines.append(fault_line)
            n = len(lines)
            if not last:
                for _ in range(rng.choice([0, 1, 2, 5])):
                    lines.append(rng.choice(FILL_STMT))
                lines.append("}")
        else:
            lines.append(fault_line)
            n = len(lines)
        if not last:
            for _ in range(rng.choice([0, 0, 1, 3])):
                lines.append(rng.choice(FILL_TOP))
        mixed = rng.random() < 0.15
        text = ""
        lineno = None
        for i, l in enumerate(lines):
            if i == n - 1:
                # literals that span lines (in the filler or in front of the fault on its own line) count as line breaks
                lineno = text.count("\n") + l[:l.rindex("\n") + 1 if "\n" in l else 0].count("\n") + 1
            text += l
            if i < len(lines) - 1 or (not last and rng.random() < 0.7):
                text += (rng.choice(["\n", "\r\n"]) if mixed else eol)
        return text.encode("utf-8"), lineno

    def generate(self, rng, tier):
        self.cases = []
        self.k = 0
        thorough = tier == "thorough"
        reps = 12 if thorough else 2

        for _ in range(reps):
            # lexical: illegal characters at every kind of position
            for kind, text, span, outcome, exact in lexical_faults(rng):
                self.plant(rng, kind, text, span, outcome, "begin", exact)
            for ch in ILLEGAL:
                self.plant(rng, "illegal character", "x = 1 " + ch, (6, 6 + len(ch.rstrip(" ").encode())), "syntax", "begin", True)
                self.plant(rng, "illegal character", ch + " { print }", (0, len(ch.rstrip(" ").encode())), "syntax", "top", True)
            # unterminated string / regex: on the last line so that the fault stays on one line
            for text, q in (("print \"abc", 6), ("x = 'héllo wörld ", 4), ("x = 1; y = \"é", 11), ("print 1, \"x y", 9), ("print /ab c", 6),
                            ("x = s1 ~ /[a-z]+ ", 9), ("x = \"a\" + 'b", 10), ("print \"", 6), ("x = 1; y = '", 11), ("x = s1 ~ /", 9)):
                assert text[q] in "\"'/"
                self.plant(rng, "unterminated literal", text, (len(text[:q].encode()), len(text.encode())), "syntax", "begin", False, last=True)
            for text in SYNTAX_FAULTS:
                self.plant(rng, "syntax fault", text, None, "syntax", "begin", False)
            for text in RUNTIME_FAULTS:
                self.plant(rng, "runtime fault", text, None, "runtime", "begin", False)
            # depth limit: the failing call is the one inside the function
            src = "function rec(n) { return rec(n + 1) }"
            prog, n = self.layout(rng, src, "top")
            prog += b"\nBEGIN { rec(1) }\n"
            self.add(prog, {"what": "runtime fault: call depth", "line": n, "span": [src.index("rec(n + 1)"), len(src) - 2], "outcome": "runtime"}, n > 1)

        # runtime faults raised through compound assignment operators and ++/--
        cf = compound_faults(rng)
        for what, setup, stmt in cf:
            text = setup + stmt
            self.plant(rng, "runtime fault through " + what, text, (len(setup.encode()), len(text.encode())), "runtime", "begin", False)
        # ... and the same at EVERY line of a body, in every kind of body
        by_op = {}
        for f in cf:
            by_op.setdefault(f[0].split(" ")[0], []).append(f)
        for op in sorted(by_op):
            for f in rng.sample(by_op[op], min(len(by_op[op]), (6 if thorough else 1) * (3 if op == "/=" else 1))):
                self.every_line(rng, *f)
        # faults on very long lines (200 .. 5000 bytes; a minified program): at the end, at the start and in the middle of the line
        syn = [t for t in SYNTAX_FAULTS if t not in NEEDS_FOLLOW]
        run = [t for t in RUNTIME_FAULTS if t not in ENDLESS]
        for _ in range(4 if thorough else 1):
            for width in LONG_WIDTHS:
                for shape in ("end", "start", "middle"):
                    ch = rng.choice(ILLEGAL)
                    self.plant_long(rng, "illegal character", "x = 1 " + ch, (6, 6 + len(ch.rstrip(" ").encode())), "syntax", True, width, shape)
                    self.plant_long(rng, "syntax fault", rng.choice(syn), None, "syntax", False, width, shape)
                    self.plant_long(rng, "runtime fault", rng.choice(run), None, "runtime", False, width, shape)
                what, setup, stmt = rng.choice(cf)
                self.plant_long(rng, "runtime fault through " + what, setup + stmt, (len(setup.encode()), len((setup + stmt).encode())), "runtime",
                                False, width, rng.choice(["end", "start", "middle"]))
        # a stray `next` inside a function, called from a rule where it has no meaning: the fault is the next statement
        for _ in range(reps):
            for caller in ("BEGIN", "END"):
                fl = rng.choice(["  next", "\tnext  # stray ©", "  if (a) next", "  s = \"é\"; next"])
                lines = ["# c", "function g1(a) { return a }", "function strayf(a) {"] + [rng.choice(FILL_STMT) for _ in range(rng.randint(0, 3))]
                eol = rng.choice(["\n", "\r\n"])
                n = (eol.join(lines) + eol).count("\n") + 1
                lines.append(fl)
                lines += ["}", "%s {" % caller, "  x1 = 1", "  strayf(1)", "}"]
                src = eol.join(lines).encode("utf-8")
                a = len(fl[:fl.index("next")].encode())
                self.add(src, {"what": "runtime fault: stray next in a function called from " + caller, "line": n, "span": [a, a + 4],
                               "outcome": "runtime"}, True)
        # faults that are not confined to one line: only the consistency of line number and line text is promised
        multi = ["BEGIN {\n x = (1 +\n 2\n y = 3 }", "BEGIN {\n x = \"abc\n y = 2 }\n", "BEGIN {\n x = 1\n", "BEGIN { x = 1\n\n# c\n", "BEGIN {\n x = 1 +\n }",
                 "BEGIN {\n print 1,\n }\n", "function f(a,\n b {\n}\n", "BEGIN { x = [1,\n 2\n\n ; }", "BEGIN {\r\n if (x)\r\n\r\n else }\r\n", "BEGIN {\n x = /ab\n c\n",
                 "{ print\n\"", "{ print }\n'", "BEGIN { x = 1 }\n}", "BEGIN {\n\n\n", "BEGIN", "BEGIN {\n x = 1 /\n\n 0\n}\n", "BEGIN {\n x = [1]\n <\n 2 }",
                 "BEGIN {\n printf(\n\"%d\"\n, 1) }", "\n\n", "", "#", "BEGIN { é", "BEGIN {\n x = y.\n z.\n 5 }", "BEGIN {\n f(\n)(\n) }"]
        for src in multi:
            self.add(src.encode(), {"what": "fault spanning lines"}, src.count("\n") >= 2)
        # valid programs with the same decorations: no position at all
        for _ in range(20 * reps):
            prog, n = self.layout(rng, rng.choice(FILL_STMT), "begin")
            self.add(prog, {"what": "no fault", "outcome": "ok"}, False)

        # LINECOL on random (text, position)
        nlc = 6000 if thorough else 600
        for i in range(nlc):
            src = self.rand_text(rng)
            for pos in {rng.randint(0, len(src) + 2) for _ in range(3)} | ({len(src)} if i % 7 == 0 else set()):
                cid = "l%d" % self.k
                self.k += 1
                self.cases.append(Case(cid, "LINECOL %s %s %d" % (cid, hx(src), pos), {"what": "linecol", "src": src.decode("utf-8", "replace"),
                                                                                       "srchex": hx(src), "pos": pos}, src.count(b"\n") >= 2))
        # ---- what the text STARTS with (added last: the families above keep their random stream)
        self.leading(rng, thorough)
        return self.cases

    def leading(self, rng, thorough):
        """(A) the text starts with bytes no token can start with: that is the fault, on line 1, inside the first character, whatever
        follows (a faulty first line, a fault on a later line, a runtime fault, a valid program, a line break).  (B) the text starts with
        blank lines / blanks / comments and a fault is planted on the first program line (the same line as the blanks) or k lines later:
        line and column count every byte of the text.  (C) LINECOL on texts with such starts."""
        reps = 4 if thorough else 1
        syn = [t for t in SYNTAX_FAULTS]
        run = [t for t in RUNTIME_FAULTS]
        for _ in range(reps):
            for seq, n1 in LEAD_ILLEGAL:
                tails = [b"BEGIN { x = 1 @ 2 }\nEND { print x }\n", b"BEGIN { x = 1 }\n\nEND { y = 1 ` 2 }\n", b"BEGIN { x = 1 / 0 }\n", b"BEGIN { x = 1 }\n{ print }\nEND { x = [1] < 2 }",
                         rng.choice(LEAD_PROGS).encode(), b"\n" + rng.choice(LEAD_PROGS).encode(), b"", b"\n", b" # c\n" + rng.choice(LEAD_PROGS).encode(),
                         b"BEGIN {\r\n  x = (1\r\n}\r\n", b" " + seq + b"\nBEGIN { x = 1 }", b"BEGIN { print \"" + seq + b"\" }\n@"]
                for tail in (tails if thorough else rng.sample(tails[:4], 2) + rng.sample(tails[4:], 3)):
                    ws = rng.choice([b"", b"", b"", b"  ", b"\t", b" \t "])
                    self.add(ws + seq + tail, {"what": "the text starts with %r: illegal character" % (ws + seq), "line": 1, "span": [len(ws), len(ws) + n1],
                                               "outcome": "syntax", "exact": True, "lead": True}, tail.count(b"\n") >= 2)
            for prefix in LEAD_OK:
                for k in (0, 1, 3):
                    ch = rng.choice(ILLEGAL)
                    self.plant_lead(rng, prefix, k, "illegal character", "x = 1 " + ch, (6, 6 + len(ch.rstrip(" ").encode())), "syntax", True)
                    self.plant_lead(rng, prefix, k, "syntax fault", rng.choice(syn), None, "syntax", False)
                    self.plant_lead(rng, prefix, k, "runtime fault", rng.choice(run), None, "runtime", False)
                # an illegal character is the first thing after the start
                ch = rng.choice(ILLEGAL)
                pb = prefix.encode("utf-8")
                off = len(pb) - (pb.rfind(b"\n") + 1)
                self.add(pb + (ch + " { print }\nEND { x = 1 }\n").encode("utf-8"),
                         {"what": "the text starts with %r: illegal character %r right after it" % (prefix[:40], ch), "line": pb.count(b"\n") + 1,
                          "span": [off, off + len(ch.rstrip(" ").encode())], "outcome": "syntax", "exact": True, "lead": True}, True)
                # no fault at all
                self.add(pb + rng.choice(LEAD_PROGS).encode("utf-8"), {"what": "no fault", "outcome": "ok", "lead": True}, False)
        # (C) LINECOL
        starts = [q for q, _ in LEAD_ILLEGAL] + [q.encode("utf-8") for q in LEAD_OK if len(q) < 50]
        for i in range(len(starts) * (6 if thorough else 2)):
            src = starts[i % len(starts)] + self.rand_text(rng)
            for pos in {0, rng.randint(0, 4), rng.randint(0, len(src) + 1)}:
                cid = "l%d" % self.k
                self.k += 1
                self.cases.append(Case(cid, "LINECOL %s %s %d" % (cid, hx(src), pos), {"what": "linecol", "src": src.decode("utf-8", "replace"),
                                                                                       "srchex": hx(src), "pos": pos}, src.count(b"\n") >= 2))

    def plant_lead(self, rng, prefix, k, kind, text, span, outcome, exact):
        """prefix, then `function g1 ... BEGIN {`, the fault line k lines below the opener (k = 0: on the opener's own line), `}`"""
        befores = [b for b in BEFORE if "\n" not in b]
        before = rng.choice(befores)
        after = rng.choice(AFTER)
        if text in NEEDS_SEMI or text[0] in "[(-+/":
            before = rng.choice([b for b in befores if b.strip().endswith(";")])
        if text.rstrip().endswith("}") and after.strip().startswith(";"):
            after = rng.choice(["", " ", " # trailing ©"])
        follow = text in NEEDS_FOLLOW
        if follow:
            after = rng.choice([a for a in AFTER if a.strip().startswith(";")])
        if span is None:
            span = (0, len(text.encode()) + (len(after.encode()) if follow else 0))
        eol = "\r\n" if "\r\n" in prefix else "\n"
        opener = rng.choice(["function g1(a) { return a } BEGIN {", "function g1(a) { return a }\tBEGIN {  x0 = 0;"])
        safe = [l for l in FILL_STMT if "\n" not in l]
        pb = prefix.encode("utf-8")
        tail = len(pb) - (pb.rfind(b"\n") + 1)
        if k == 0:
            lines = [opener + " " + before + text + after]
            off = tail + len((opener + " " + before).encode("utf-8"))
        else:
            lines = [opener] + [rng.choice(safe) for _ in range(k - 1)] + [before + text + after]
            off = len(before.encode("utf-8"))
        n = pb.count(b"\n") + 1 + k
        lines.append("}")
        for _ in range(rng.choice([0, 0, 1, 3])):
            lines.append(rng.choice(FILL_TOP))
        prog = pb + (eol.join(lines) + (eol if rng.random() < 0.7 else "")).encode("utf-8")
        self.add(prog, {"what": "the text starts with %r, %s %d lines below the first rule's opening: %s" % (prefix[:40], kind, k, text), "line": n,
                        "span": [off + span[0], off + span[1]], "outcome": outcome, "exact": exact, "lead": True}, True)

    def rand_text(self, rng):
        pieces = ["a", "bc", " ", "\t", "é", "日本", "€", "😀", "x = 1", "\"s\"", "#c", "\r", "@", "", "print", "{", "}"]
        nl = rng.choice([0, 1, 2, 3, 5, 8])
        lines = ["".join(rng.choice(pieces) for _ in range(rng.choice([0, 0, 1, 2, 4, 7]))) for _ in range(nl + 1)]
        text = "\n".join(lines)
        if rng.random() < 0.3:
            text = text.replace("\n", "\r\n")
        return text.encode("utf-8")

    def plant(self, rng, kind, text, span, outcome, where, exact, last=False):
        before = rng.choice(BEFORE) if where == "begin" else ""
        after = rng.choice(AFTER) if (where == "begin" and not last) else ""
        if text in NEEDS_SEMI or text[0] in "[(-+/":
            before = rng.choice([b for b in BEFORE if b.strip().endswith(";")])
        if text.rstrip().endswith("}") and after.strip().startswith(";"):
            after = rng.choice(["", " ", " # trailing ©"])      # no ';' after a statement that ends in '}'
        follow = text in NEEDS_FOLLOW
        if follow:
            after = rng.choice([a for a in AFTER if a.strip().startswith(";")])
        line = before + text + after
        off = len(before.rsplit("\n", 1)[-1].encode())
        if span is None:
            # a fault that needs a following token is noticed on that token
            span = (0, len(text.encode()) + (len(after.encode()) if follow else 0))
        prog, n = self.layout(rng, line, where, last=last)
        nlines = prog.count(b"\n") + 1
        self.add(prog, {"what": "%s: %s" % (kind, text), "line": n, "span": [off + span[0], off + span[1]], "outcome": outcome,
                        "exact": exact}, nlines >= 3 and n > 1)

    def plant_long(self, rng, kind, text, span, outcome, exact, width, shape):
        """the fault on a line of at least `width` bytes: after a long run of statements (end), in front of one (start) or between two"""
        before = long_pad(rng, width if shape == "end" else width // 2) if shape != "start" else rng.choice(["", "  ", "x6 = 1; ", "\t"])
        if shape == "start" and (text in NEEDS_SEMI or text[0] in "[(-+/"):
            before = "x6 = 1; "
        if shape == "end":
            after = rng.choice(["", " ", " # c ©"])
        else:
            rest = width if shape == "start" else width - width // 2
            if text.rstrip().endswith("}") or rng.random() < 0.3:
                after = " # " + "".join(rng.choice(["long ", "comment ", "© ", "\t", "日本 "]) for _ in range(rest))
                after = after.encode()[:rest].decode("utf-8", "ignore")
            else:
                after = " ; " + long_pad(rng, rest)
        line = before + text + after
        off = len(before.encode())
        if span is None:
            span = (0, len(text.encode()))
        prog, n = self.layout(rng, line, "begin")
        self.add(prog, {"what": "%s on a line of %d bytes (%s): %s" % (kind, len(line.encode()), shape, text), "line": n,
                        "span": [off + span[0], off + span[1]], "outcome": outcome, "exact": exact, "long": True}, n > 1)

    def every_line(self, rng, what, setup, stmt):
        """one program per line j of a K-line body (BEGIN / END / pattern rule / function called from BEGIN) with the fault on line j;
        the lines in front of it are harmless statements"""
        host = rng.choice(["BEGIN", "END", "pattern", "function"])
        eol = rng.choice(["\n", "\n", "\r\n"])
        head = [l for l in (rng.choice(FILL_TOP) for _ in range(rng.choice([0, 1, 2]))) if not l.startswith("$")]
        head.append("function g1(a) { return a }")
        opener = {"BEGIN": "BEGIN {", "END": "END {", "pattern": rng.choice(["{", "$ {", "$index == 0 {"]), "function": "function cf9(a) {"}[host]
        K = rng.choice([4, 6, 9])
        safe = [l for l in FILL_STMT if "\n" not in l and "g1(" not in l]      # one statement (or blank / comment) per line
        for j in range(K):
            body = [rng.choice(safe) for _ in range(K)]
            # a prefix operator at the start of a line would continue the previous line's expression
            pre = rng.choice(["", "  ", "\t", " \t "]) + ("x6 = 1; " if (stmt[0] in "-+" and not setup) else "") + setup
            body[j] = pre + stmt + rng.choice(["", "", " # c ©"] + ([] if stmt.rstrip().endswith("}") else [" ; x8 = 2"]))
            off = len(pre.encode())
            lines = list(head)
            first = len(lines) + 1                   # line of the opener
            if j == 0 and rng.random() < 0.5:
                lines.append(opener + " " + body[0])
                off += len((opener + " ").encode())
                lines += body[1:]
                n = first
            else:
                lines.append(opener)
                lines += body
                n = first + 1 + j
            if j == K - 1 and rng.random() < 0.5 and "#" not in body[j]:
                lines[-1] += " }"
            else:
                lines.append("}")
            if host == "function":
                lines.append(rng.choice(["BEGIN { cf9(1) }", "BEGIN {\n  y = cf9(2)\n}", "END { print cf9(0) }"]))
            n += sum(l.count("\n") for l in lines[:n - 1])          # literals spanning lines in the head
            prog = eol.join(lines) + (eol if rng.random() < 0.7 else "")
            self.add(prog.encode("utf-8"), {"what": "runtime fault through %s, line %d of %d of a %s body: %s" % (what, j + 1, K, host, setup + stmt),
                                            "line": n, "span": [off, off + len(stmt.encode())], "outcome": "runtime"}, n > 1,
                     inputs=["[1, 2]"] if host == "pattern" else ())

    def add(self, prog, meta, nontrivial, inputs=()):
        cid = "p%d" % self.k
        self.k += 1
        meta = dict(meta, prog=prog.decode("utf-8", "replace"), proghex=hx(prog))
        if inputs:
            meta["inputs"] = list(inputs)
        self.cases.append(Case(cid, simple_run(cid, prog, list(inputs)), meta, nontrivial))

    # ------------------------------------------------------------------ oracle
    def oracle(self, case, impl):
        m = case.meta
        if m.get("what") == "linecol":
            if len(impl.raw) != 3:
                return None
            src, pos = unhx(m["srchex"]), m["pos"]
            try:
                line, col, text = int(impl.raw[0]), int(impl.raw[1]), unhx(impl.raw[2])
            except ValueError:
                return "LINECOL returned %r" % (impl.raw,)
            lines = src.split(b"\n")
            if not (1 <= line <= len(lines)) or lines[line - 1] != text:
                return "position %d of %r: reported line %d with text %r, which is not line %d of the text" % (pos, src, line, text, line)
            if not (0 <= col <= len(text)):
                return "position %d of %r: reported column %d of a line of %d bytes" % (pos, src, col, len(text))
            if pos < len(src) and src[pos:pos + 1] != b"\n":
                wl = src[:pos].count(b"\n") + 1
                wc = pos - (src.rfind(b"\n", 0, pos) + 1)
                if (line, col) != (wl, wc):
                    return "position %d of %r is line %d column %d, reported as line %d column %d" % (pos, src, wl, wc, line, col)
            return None
        if "proghex" not in m or impl.outcome in ("timeout", "noresult", "crash"):
            return None
        src = unhx(m["proghex"])
        want = m.get("outcome")
        if want and impl.outcome != want:
            return "%s: expected outcome %s, implementation %s" % (m["what"], want, impl.outcome)
        if impl.outcome not in ("syntax", "runtime"):
            return None
        try:
            line, col = int(impl.line), int(impl.col)
        except ValueError:
            return "non-numeric position %r %r" % (impl.line, impl.col)
        text = unhx(impl.srcline) if impl.srcline not in ("?",) else b""
        lines = src.split(b"\n")
        if not (1 <= line <= len(lines)):
            return "%s: reported line %d, the program has %d lines" % (m["what"], line, len(lines))
        if lines[line - 1] != text:
            return "%s: reported line %d with text %r, but line %d of the program is %r" % (m["what"], line, text, line, lines[line - 1])
        if not (0 <= col <= len(text)):
            return "%s: reported column %d on a line of %d bytes (%r)" % (m["what"], col, len(text), text)
        if "line" in m:
            if line != m["line"]:
                return "%s: planted on line %d, reported on line %d (%r)" % (m["what"], m["line"], line, text)
            a, b = m["span"]
            if not (a <= col < b):
                return "%s: planted at columns [%d,%d) of line %d, reported column %d" % (m["what"], a, b, line, col)
        return None

    # ------------------------------------------------------------------ the diagnostic printed by the real binary
    def extra(self, ctx):
        """every planted-fault program (all of the long-line ones, a sample of the rest) through `jqawk -f prog`: stderr must be the three
        diagnostic lines, the first quoting exactly line N of the program, the caret under the reported byte column"""
        rng, tier = ctx["rng"], ctx["tier"]
        cand = []
        for c in ctx["cases"]:
            m = c.meta
            if not c.line or "proghex" not in m or any(e in m["prog"] for e in ENDLESS):
                continue
            r = RunRes(ctx["impl"].get(c.id, []))
            if r.outcome in ("syntax", "runtime"):
                cand.append((c, r))
        longs = [x for x in cand if x[0].meta.get("long") or x[0].meta.get("lead")]
        rest = [x for x in cand if not (x[0].meta.get("long") or x[0].meta.get("lead"))]
        nrest = 2000 if tier == "thorough" else 500
        if len(rest) > nrest:
            rest = rng.sample(rest, nrest)
        sample = longs + rest
        viol, stats = [], {"cli_diagnostics_long_lines_and_text_starts": len(longs), "cli_diagnostics_run": len(sample)}
        with Scratch() as sc:
            def one(x):
                c, r = x
                src = unhx(c.meta["proghex"])
                args = ["-f", sc_file(src)]
                for t in c.meta.get("inputs", []):
                    args.append(sc_file(t.encode(), ".json"))
                return run_cli(args, b"", timeout=20)
            import threading
            lock = threading.Lock()

            def sc_file(data, suffix=""):
                with lock:
                    return sc.file(data, suffix)
            results = pmap(one, sample)
        compared = 0
        for (c, r), res in zip(sample, results):
            if res.timed_out:
                continue
            why = self.judge_cli(c, r, res)
            if why == "skip":
                continue
            compared += 1
            if why:
                meta = dict(c.meta, stderr=res.err.decode("utf-8", "replace")[:12000], command="jqawk -f <prog> " + " ".join("<input%d>" % (i + 1) for i in range(len(c.meta.get("inputs", [])))))
                viol.append((Case("cli-" + c.id, None, meta, True, ("cli",)), "jqawk binary: " + why))
        stats["cli_diagnostics_compared"] = compared
        if sample and compared < len(sample) // 2:
            viol.append((Case("cli-none", None, {"attempted": len(sample), "compared": compared}, True, ("cli",)),
                         "jqawk binary: only %d of %d fault programs produced a diagnostic that could be compared" % (compared, len(sample))))
        return viol, stats

    def judge_cli(self, c, r, res):
        m = c.meta
        src = unhx(m["proghex"])
        t = res.trace()
        if t or res.rc is None or res.rc < 0:
            return "%s: the process died (%r, exit status %s)" % (m["what"], t, res.rc)
        if res.rc == 0:
            return "skip"               # the run through the binary met no error (not this property's business)
        mt = DIAG_RE.match(res.err)
        if not mt:
            return "%s: stderr is not `  <line>` / `  <blanks>^` / `<kind> error on line N: ...`: %r" % (m["what"], res.err[:300])
        quoted, caret, kind, line = mt.group(1), len(mt.group(2)), mt.group(3).decode(), int(mt.group(4))
        lines = src.split(b"\n")
        if not (1 <= line <= len(lines)):
            return "%s: diagnostic names line %d, the program has %d lines" % (m["what"], line, len(lines))
        if quoted != lines[line - 1]:
            return "%s: the diagnostic names line %d and quotes %r (%d bytes), but line %d of the program is %r (%d bytes)" % (
                m["what"], line, quoted[:120], len(quoted), line, lines[line - 1][:120], len(lines[line - 1]))
        if caret > len(quoted):
            return "%s: caret at column %d under a quoted line of %d bytes" % (m["what"], caret, len(quoted))
        try:
            rl, rc = int(r.line), int(r.col)
        except ValueError:
            return "skip"
        if kind != r.outcome or line != rl:
            return "%s: the library reports a %s error on line %d, the binary prints a %s error on line %d" % (m["what"], r.outcome, rl, kind, line)
        if caret != rc:
            return "%s: reported byte column %d (line %d), the caret is printed at column %d" % (m["what"], rc, line, caret)
        if "line" in m:
            a, b = m["span"]
            if line != m["line"] or not (a <= caret < b):
                return "%s: planted at columns [%d,%d) of line %d, diagnostic has line %d and the caret at column %d" % (m["what"], a, b, m["line"], line, caret)
        return None


CHECK = C12()
