"""C13: a program's meaning depends only on its tokens, not on layout, comments or quoting."""
import json, os
from framework import Check, Case
from jqlib import simple_run, run_impl, hx, unhx, RunRes, BUILD
import genprog, jqlex, pyref
from jqlex import lex, glues

STMT_START = {"Ident", "$", "Str", "Num", "true", "false", "null", "print", "if", "for", "while", "return", "break", "continue",
              "next", "exit", "match"}
STMT_END = {"Ident", "$", "Str", "Num", "Regex", "true", "false", "null", ")", "]", "break", "continue", "next", "exit", "print", "return"}
COMMENTS = ["", " c", " dir C:\\", " \\", " é©", " \"quote' ", " # nested", " print 1; x = 2", " {", " }", "\t", " /", " BEGIN"]
HSPACE = [" ", " ", "  ", "\t", "\r", " \t ", "   "]
BRACKETY = set("()[]{},;:")


def tok_text(src, t):
    return src[t.start:t.end]


class Layout:
    """re-lay-out a token sequence under the rules of the property statement"""

    def __init__(self, src, rng):
        self.src = src
        self.r = rng
        toks, err = lex(src, regex_aware=True)
        self.ok = err is None
        self.toks = [t for t in toks if t.kind not in ("Newline", "EOF", "Error")]
        self.analyse()

    def analyse(self):
        """per token: the innermost open bracket kind BEFORE the token and AFTER it; for ')' whether it closes a control header"""
        toks = self.toks
        stack = []          # entries: kind
        self.inner_after = []
        self.header_close = [False] * len(toks)
        open_info = []      # parallel to stack: index of the opening token
        for i, t in enumerate(toks):
            k = t.kind
            if k in ("(", "["):
                kind = k
                if k == "(" and i > 0 and toks[i - 1].kind in ("if", "while", "for"):
                    kind = "(hdr"
                elif k == "(" and i > 0 and toks[i - 1].kind == "match":
                    kind = "(match"
                stack.append(kind)
                open_info.append(i)
            elif k == "{":
                p = toks[i - 1] if i > 0 else None
                if p is None:
                    kind = "{block"
                elif p.kind == ")":
                    kind = "{match" if self.close_kind.get(i - 1) == "(match" else "{block"
                elif p.kind in ("else", "BEGIN", "END", "BEGINFILE", "ENDFILE", "=>", "{", "}", ";", "Ident", "$", "Str", "Num", "Regex",
                                "true", "false", "null", "]"):
                    kind = "{block"
                else:
                    kind = "{obj"
                # a '{' directly after a newline inside a block is a nested block, inside an object/match it cannot occur
                stack.append(kind)
                open_info.append(i)
            elif k in (")", "]", "}"):
                if stack:
                    ck = stack.pop()
                    open_info.pop()
                    if not hasattr(self, "close_kind"):
                        self.close_kind = {}
                    self.close_kind[i] = ck
                    if ck == "(hdr":
                        self.header_close[i] = True
            if not hasattr(self, "close_kind"):
                self.close_kind = {}
            self.inner_after.append(stack[-1] if stack else None)

    # ------------------------------------------------------------------ gap rules
    def newline_ok(self, i):
        """may a newline be inserted between token i and token i+1 (which had none)?"""
        a, b = self.toks[i], self.toks[i + 1]
        if a.kind in ("print", "return") or b.kind == ";":
            return False
        inner = self.inner_after[i]
        if a.kind == "," and inner not in ("(", "[", "(hdr", "(match"):
            return False
        return True

    def semi_ok(self, i):
        """may the newline between token i and i+1 be replaced by ';'? (it separates two statements of a block and the first
        does not end in '}')"""
        a, b = self.toks[i], self.toks[i + 1]
        if self.inner_after[i] != "{block":
            return False
        if a.kind not in STMT_END or b.kind not in STMT_START:
            return False
        if a.kind == ")" and self.close_kind.get(i) != "(":
            return False
        return True

    def join_ok(self, i):
        """may the newline between token i and i+1 be dropped?"""
        a, b = self.toks[i], self.toks[i + 1]
        inner = self.inner_after[i]
        if inner in ("(", "[", "(hdr", "(match") and b.kind != ";":
            return True
        if a.kind == "{" or (b.kind == "}" and a.kind != ","):
            return True
        if a.kind == "}" and b.kind == "else":
            return True
        if a.kind == ")" and b.kind == "{" and self.close_kind.get(i) in ("(hdr", "(match"):
            return True         # after a plain call the line break separates two statements: f()\n{ ... }
        return False

    def hspace(self, a, b, allow_empty):
        r = self.r
        if allow_empty and r.random() < 0.4:
            return b""
        return r.choice(HSPACE).encode()

    def can_touch(self, i, orig_empty):
        if orig_empty:
            return True
        a, b = tok_text(self.src, self.toks[i]), tok_text(self.src, self.toks[i + 1])
        la, fb = chr(a[-1]), chr(b[0])
        return la in BRACKETY or fb in BRACKETY or (la in "'\"" and self.toks[i].kind == "Str") or (fb in "'\"" and self.toks[i + 1].kind == "Str")

    def newline_run(self):
        r = self.r
        out = b""
        for _ in range(r.choice([1, 1, 1, 2, 3])):
            out += r.choice([b"", b" ", b"\t", b"  "])
            if r.random() < 0.3:
                out += b"#" + r.choice(COMMENTS).encode()
            out += r.choice([b"\n", b"\n", b"\r\n"])
        return out + r.choice([b"", b" ", b"\t", b"    "])

    def render(self, intensity=0.5):
        """one random layout. returns (bytes, number of gaps that differ from the original)"""
        r = self.r
        src, toks = self.src, self.toks
        out = b""
        changed = 0
        if r.random() < 0.3:
            out += self.newline_run()
        elif r.random() < 0.3:
            out += r.choice(HSPACE).encode()
        for i, t in enumerate(toks):
            text = tok_text(src, t)
            if t.kind == "Str" and b"'" not in text[1:-1] and b'"' not in text[1:-1] and r.random() < intensity:
                qc = r.choice([b"'", b'"'])
                text = qc + text[1:-1] + qc
            out += text
            if i == len(toks) - 1:
                break
            gap = src[t.end:toks[i + 1].start]
            if r.random() > intensity:
                out += gap
                continue
            has_nl = b"\n" in gap
            if not has_nl:
                if self.newline_ok(i) and r.random() < 0.25:
                    new = self.newline_run()
                else:
                    new = self.hspace(t, toks[i + 1], self.can_touch(i, gap == b""))
            else:
                k = r.random()
                if k < 0.35 and self.semi_ok(i):
                    new = r.choice([b"", b" "]) + b";" + r.choice([b"", b" ", b" ", b"\t"]) + (self.newline_run() if r.random() < 0.3 else b"")
                elif k < 0.6 and self.join_ok(i):
                    new = self.hspace(t, toks[i + 1], self.can_touch(i, False))
                else:
                    new = self.newline_run()
            if new != gap:
                changed += 1
            out += new
        k = r.random()
        if k < 0.3:
            out += self.newline_run()
        elif k < 0.5:
            out += b" #" + r.choice(COMMENTS).encode()
        return out, changed


def recursive(prog):
    """does a function body of a genprog program call a user function (f, g, h)? then it may recurse without bound"""
    import re
    for m in re.finditer(r"function [fgh]\(", prog):
        body = prog[m.end():]
        nxt = re.search(r"\n(function |BEGIN|END|BEGINFILE|ENDFILE)", body)
        depth, end = 0, len(body)
        for i, ch in enumerate(body):
            if ch == "{":
                depth += 1
            elif ch == "}":
                depth -= 1
                if depth == 0:
                    end = i
                    break
        if re.search(r"\b[fgh]\(", body[:end].split(")", 1)[-1]):
            return True
    return False


def token_signature(src):
    """the token sequence of a text as the property sees it: kinds and texts, newlines dropped, strings without their quotes"""
    toks, err = lex(src, regex_aware=True)
    sig = []
    for t in toks:
        if t.kind in ("Newline", "EOF", ";"):
            continue            # a ';' may stand for a statement-separating newline
        sig.append((t.kind, src[t.pos:t.pos + t.len] if t.kind in ("Str", "Regex", "Ident", "Num") else b""))
    return sig, err


PAIR_TOKENS = ["12", "1.5", "0", "ab", "_x", "x1", "e3", "$", "$ab", '"s"', "'s'", "if", "print", "in", "is", "true", "null", "BEGIN",
               "function", "return", "else"] + jqlex.OPERATORS

KEYWORDISH = ["iffy", "printx", "in_", "nextval", "format", "forx", "BEGINx", "xEND", "nullable", "truest", "isx", "xis", "matcher",
              "exits", "breaker", "whiley", "elsewhere", "returned", "functional", "continued", "falsey", "endfile", "begin", "Print",
              "IF", "xif", "_in", "in1", "is_", "next_", "print1", "xprint", "ENDFILEs", "BEGINFILE_", "nul", "tru", "e3", "_", "__x", "x__", "a1b2"]


# ---------------------------------------------------------------------------- comments and blank space of unusual bytes
# Small programs with a documented output and many kinds of gaps (line ends after statements, inside brackets, after
# operators, around braces and 'else', inside headers).  A comment may hold any bytes: it runs to the line feed, and only
# the line feed ends it.
LAYOUT_BASES = [
    (b"BEGIN {\n  x = 1\n  y = x + 2\n  print x, y\n}\n", [], "1 3\n"),
    (b"function f(a, b) {\n  return a * b\n}\nBEGIN { n = 0 }\n{\n  n = n + f($, 2)\n  if ($ > 1) {\n    print \"big\", $\n  } else {\n"
     b"    print \"small\"\n  }\n}\nEND {\n  print n\n}\n", ["[1, 2, 3]"], "small\nbig 2\nbig 3\n12\n"),
    (b"BEGIN {\n  s = \"a#b\"\n  t = 'c # d'\n  arr = [1,\n    2,\n    3]\n  o = {k: 1,\n    m: 2}\n  for (i = 0; i < 3; i++) {\n"
     b"    print arr[i], s\n  }\n  print t, o.m\n}\n", [], "1 a#b\n2 a#b\n3 a#b\nc # d 2\n"),
    (b"BEGIN { a = 1; b = 2\n  while (a < 4) {\n    a = a +\n      1\n  }\n  print a, b\n}\n", [], "4 2\n"),
    (b"$.v > 1 {\n  total += $.v\n  names[$index] = $.n.upper()\n}\nEND {\n  print total, names.length()\n}", ['[{"v": 1, "n": "a"}, {"v": 2, "n": "b"}, {"v": 5, "n": "c"}]'],
     "7 3\n"),
]
# byte sequences that some lexer somewhere takes for a line end or for blank space, or that break naive decoding
VERY_SPECIAL = [b"\r", b"\r\r", b"\t", b"\x0c", b"\x0b", b"\xc2\x85", b"\xe2\x80\xa8", b"\xc3", b"\xff", b"\x00", b"\r \r"]
SPECIAL = [b"\x01", b"\x08", b"\x1a", b"\x1b", b" ", b"\"", b"#", b"'", b"/", b"\\", b"{", b"}", b";", b"\x7f", b"\x80", b"\x85", b"\xa0", b"\xc2",
           b"\xe2", b"\xe2\x80\xa9", b"\xef\xbb\xbf", b"\xc3\xa9", b"\xe6\x97\xa5\xe6\x9c\xac", b"\xf0\x9f\x98\x80", b"\xe2\x80", b"\xf0\x9f",
           b"\xc0\x80", b"\xed\xa0\x80", b"\xfe\xff", b"\x0b\x0c", b"\r\t\r", b"\\n", b"\\\r", b"\x1e", b"\x1c", b"\x1d"]
BLANKS = [b" ", b"\t", b"\r", b"\r\r", b" \r ", b"\t\r\t", b"\r\t", b"   \t", b"\r \r \r"]


MATCH_NAMES = ["x", "y", "z", "w", "q", "r", "t", "v", "_"]
# subject, cases (alternatives, expr|block, body text), the value line (None for none)
FIXED_MATCHES = [
    ("2", [(["1"], "expr", '"one"'), (["2"], "expr", '"two"'), (["_"], "expr", '"other"')], "two"),
    ("[1, 5]", [(["[0, y]"], "block", 'print "zero"'), (["[1, y]"], "expr", "y + 1"), (["_"], "expr", "0")], "6"),
    ('"b"', [(['"a"', '"b"'], "expr", 'q + "!"'), (['"c"'], "expr", "0")], "gq!"),
    ("3", [(["1"], "block", 'print "blk1"'), (["3"], "block", ""), (["_"], "block", 'print "blk_"')], "null"),
    ("7", [(["n"], "expr", "n * 2")], "14"),
    ("true", [(["false"], "expr", "0"), (["true"], "expr", "1"), (["null"], "expr", "2")], "1"),
    ("4", [(["1"], "expr", "-1"), (["4", "5"], "expr", "-4"), (["6"], "expr", "x")], "-4"),
    ("9", [(["1"], "expr", "x"), (["2", "3"], "expr", "[y, 2]"), (["n"], "expr", "[0, n][1] + 1")], "10"),
    ("[[1], 2]", [(["[[a], 3]"], "block", "print a"), (["[[a], b]"], "expr", "a + b"), (["c"], "expr", "c")], "3"),
    ('"s"', [(['"s"'], "expr", 'match (1) { 1 => "in" 2 => "no" }'), (["_"], "expr", "0")], "in"),
    ("5", [(["1"], "expr", "true"), (["5"], "expr", "null"), (["_"], "expr", "false")], "null"),
    ("0", [(["1"], "expr", '"a"')], "null"),
]


class self_r:
    """the one attribute Layout.newline_run reads"""
    def __init__(self, rng):
        self.r = rng


def comment_body(rng, seq, how):
    """the text of a comment around the byte sequence: what follows it would change the program if the comment ended there"""
    if how == 0:
        return b" keep" + seq + b" + 1"
    if how == 1:
        return seq + b"; print \"LEAK\""
    if how == 2:
        return b" note" + seq                  # directly before the line feed
    if how == 3:
        return seq + b" } print 7 {"
    if how == 4:
        return seq
    return b" a" + seq + b" b" + seq + seq + b" - 1"


class C13(Check):
    pid = "C13"
    props = ["C13_lexer.v"]
    rule = ("valid programs (random grammar-directed programs, structured control-flow programs, the repository's own test and fuzz-seed "
            "programs) tokenised by a Python statement of the lexical rules and re-laid-out k ways: random runs of space/tab/CR between "
            "tokens, # comments before line ends, newlines in every permitted gap, statement-separating newlines replaced by ';' (not "
            "after '}'), newlines dropped inside brackets, either quote style; all layouts of one token sequence must behave alike "
            "(stdout, outcome). Plus: LEX of every ordered pair of token kinds written with and without a separator against the "
            "reference lexer, keyword-prefixed/suffixed identifiers, number spellings, escape sequences; five programs with a "
            "documented output re-written with a comment or a run of blank bytes in every gap (before the first and after the last "
            "token included): comments holding lone CR, CR CR, TAB, FF, VT, NUL, NEL, U+2028, truncated and invalid UTF-8 in every gap, "
            "every other byte value and multi-byte sequence in random gaps, followed by text that would change the program if the "
            "comment ended before the line feed; match expressions (12 fixed + random case lists from the C19 generator: literal, "
            "identifier, array patterns, several alternatives, expression/block/empty-block bodies, nested match) with the cases "
            "written one per line, all on one line separated by spaces only, with comments before the line ends, without any "
            "optional space, and with every gap (around '=>', between alternatives, inside the braces, after `match`) drawn freely, "
            "for cases closed by nothing / by commas / with a trailing comma, in a print list, an assignment and as a statement: "
            "layouts of one token sequence agree, and with the documented output where known; non-trivial = the layout "
            "differs from the original in >= 3 gaps")

    def project(self, r):
        if len(r.raw) == 5:             # LEX: tokens and status
            return (r.raw[0], r.raw[1])
        return r.proj(self.position, self.io)

    # ------------------------------------------------------------------ base programs
    def bases(self, rng, tier):
        out = []
        n_gen = 1500 if tier == "thorough" else 150
        made = 0
        while made < n_gen:
            prog = genprog.rand_program(rng, rng.choice([2, 3]))
            inp = [genprog.rand_input(rng)] if rng.random() < 0.8 else []
            if recursive(prog):
                continue        # unbounded recursion is C20's subject; here it only costs time
            out.append(("genprog", prog, inp))
            made += 1
        try:
            from checks import c07
            for _ in range(n_gen // 2):
                g = c07.Gen(rng, rng.choice([2, 3, 4]))
                prog = g.program()
                docs = c07.rand_docs(rng)
                out.append(("control", c07.Render(rng).program(prog), [json.dumps(d, ensure_ascii=False) for d in docs]))
        except Exception:
            pass
        try:
            seeds = json.load(open(os.path.join(BUILD, "seeds.json")))
            for c in seeds:
                if c.get("prog") and not c.get("args"):
                    out.append(("seed:" + c["name"][:30], c["prog"], [x for x in (c.get("json"), c.get("json2")) if x]))
        except Exception:
            pass
        return out

    def generate(self, rng, tier):
        self.cases = []
        self.n = 0
        thorough = tier == "thorough"
        self.tags = jqlex.discover_tags(run_impl, hx)
        k_layouts = 8 if thorough else 4

        # ---- layouts of whole programs
        skipped = 0
        bases = [(w, (p.encode("utf-8", "surrogateescape") if isinstance(p, str) else p), i) for w, p, i in self.bases(rng, tier)]
        # whether a '/' starts a regex literal is decided by the parser: programs with a '/' are only used when the
        # implementation's own parse puts the regex literals exactly where the reference lexer's reading of the text does
        slashed = [k for k, (w, src, i) in enumerate(bases) if b"/" in self.outside_strings(src, False)]
        regex_ok = set()
        if slashed:
            res = run_impl(["PARSE v%d %s" % (k, hx(bases[k][1])) for k in slashed] + ["PARSEEXPR vtag %s" % hx("/a/")])
            try:
                rtag = jqlex.sexpr_parse(unhx(res["vtag"][4]).decode())[1]
            except Exception:
                rtag = None
            for k in slashed:
                f = res.get("v%d" % k, [])
                if rtag is None or len(f) != 5 or f[0] != "ok":
                    continue
                try:
                    spans = jqlex.literal_spans(jqlex.sexpr_parse(unhx(f[4]).decode()), rtag)
                except Exception:
                    continue
                mine = {(t.pos, t.len) for t in lex(bases[k][1], regex_aware=True)[0] if t.kind == "Regex"}
                if spans == mine:
                    regex_ok.add(k)
        # programs that run into the loop limit with pages of output say nothing more about layout, they only cost time
        pre = run_impl([simple_run("b%d" % k, src, inputs) for k, (w, src, inputs) in enumerate(bases)])
        heavy = {k for k in range(len(bases)) if RunRes(pre.get("b%d" % k, [])).outcome in ("timeout", "crash", "noresult", "panic")
                 or len(RunRes(pre.get("b%d" % k, [])).stdout) > 20000}
        for k, (what, src, inputs) in enumerate(bases):
            if (k in slashed and k not in regex_ok) or k in heavy:
                skipped += 1
                continue
            if any(b >= 0x80 for b in self.outside_strings(src)):
                skipped += 1
                continue
            lay = Layout(src, rng)
            if not lay.ok or len(lay.toks) < 2:
                skipped += 1
                continue
            sig0, _ = token_signature(src)
            key = "g%d" % self.n
            self.add_run(src, inputs, {"what": what, "key": key, "layout": "original"}, False)
            seen = {src}
            for j in range(k_layouts):
                text, changed = lay.render(rng.choice([0.15, 0.4, 0.7, 1.0]))
                sig, err = token_signature(text)
                if err is not None or sig != sig0 or text in seen:
                    continue        # the layout engine must not change the tokens (its own sanity condition)
                seen.add(text)
                self.add_run(text, inputs, {"what": what, "key": key, "layout": "variant %d (%d gaps changed)" % (j, changed)}, changed >= 3)
        self.skipped = skipped

        self.comment_cases(rng, thorough)
        self.match_layout_cases(rng, thorough)

        # ---- the lexer against the reference on pairs of tokens written with and without a separator
        pairs = [(a, b) for a in PAIR_TOKENS for b in PAIR_TOKENS]
        if not thorough:
            must = [(a, b) for a, b in pairs if a[0].isdigit() or b[0].isdigit()]
            pairs = must + rng.sample(pairs, 500)
        for a, b in pairs:
            key = "q%d" % self.n
            for sep in (" ", "", "\t", "\n") if thorough else (" ", ""):
                self.add_lex(a + sep + b, {"what": "pair", "key": key, "a": a, "b": b, "sep": sep, "glues": glues(a, b)})
        for s in ["3-1", "3 -1", "3- 1", "3 - 1", "1.5.floor()", "1.floor()", "1..2", "1.5.2", "007", "1e3", "1_000", "0x10", "10.", ".5", "5.e", "1.x",
                  "a=1;b=2", "x=1 # c\ny=2", "x=1#c", "a.b.c", "$.a[0].b", "$a$b", "$ a", "$1", "$$", "a$", "x++ +y", "x+++y", "x---y", "a<=b", "a<==b", "a=>b",
                  "a!~b", "a!!~b", "a&&b", "a&b", "a|b", "a||b", "'a\"b'", "\"a'b\"", "'a", "\"", "\"a\nb\"", "#", "# c", "a # b\n c", "\r\n\ta\r\n",
                  "é", "\"é\"", "# é\nx", "print'x'", "print\"x\"", "if(a)b", "1if", "if1", "a.1", "a.1.2", "1.2.3.4", "9007199254740993", "0.1e5", "/a/", "a/b/c",
                  "x=/=/", "@", "a @", "`", "a ? b", "\\", "^", "~~", "!~~", "==>", "<=>", "++-", "--=", "+-+-", "*==", "/==", "!==", "%="] + KEYWORDISH:
            self.add_lex(s, {"what": "lex probe"})

        # ---- targeted programs with a documented result
        P = []
        for e, want in [("3-1", "2"), ("3 -1", "2"), ("3- 1", "2"), ("3 - 1", "2"), ("10-3-2", "5"), ("1.5.floor()", "1"), ("2.5-0.5", "2"),
                        ("7.ceil()", "7"), ("1.5+1.5", "3"), ("007", "7"), ("1.50", "1.5"), ("10.0", "10"), ("2*3-1", "5"), ("4/2-1", "1"),
                        ("9-1.5", "7.5"), ("1-1.floor()", "0"), ("3--1", None), ("3- -1", "4"), ("3+-1", "2"), ("3-+1", "2")]:
            P.append(("BEGIN { print %s }" % e, [], ("ok", want + "\n") if want is not None else None))
            P.append(("BEGIN{print %s}" % e, [], ("ok", want + "\n") if want is not None else None))
        P.append(("BEGIN { a=1;b=2; print a, b }", [], ("ok", "1 2\n")))
        P.append(("BEGIN { x=1 # c\ny=2\nprint x, y }", [], ("ok", "1 2\n")))
        P.append(("BEGIN { x=1 # print 5 }\nprint x }", [], ("ok", "1\n")))
        P.append(("{ print;x=1; print x }", ["[5]"], ("ok", "5\n1\n")))
        P.append(("{ print; x=1\n print x }", ["[5]"], ("ok", "5\n1\n")))
        P.append(("{ print\nx=1; print x }", ["[5]"], ("ok", "5\n1\n")))
        P.append(("{ print ; print }", ["[5]"], ("ok", "5\n5\n")))
        P.append(("{ if ($ > 1) print; else_ = 2; print else_ }", ["[5]"], ("ok", "5\n2\n")))
        P.append(("function f() { return; x = 1 }\nBEGIN { print f() }", [], ("ok", "null\n")))
        P.append(("function f() { return\n 5 }\nBEGIN { print f() }", [], ("ok", "null\n")))
        P.append(("function f() { return 5 }\nBEGIN { print f() }", [], ("ok", "5\n")))
        P.append(("{ print 1,\n 2 }", ["[5]"], ("ok", "1\n")))
        P.append(("{ print 1, 2 }", ["[5]"], ("ok", "1 2\n")))
        P.append(("{ print\n 7 }", ["[5]"], ("ok", "5\n")))
        P.append(("BEGIN { x = 1 +\n 2\n print x }", [], ("ok", "3\n")))
        P.append(("BEGIN { x = [1,\n 2,\n 3\n]\n print x }", [], ("ok", "[1, 2, 3]\n")))
        P.append(("BEGIN { x = {a: 1,\n b: 2\n}\n print x }", [], ("ok", "{\"a\": 1, \"b\": 2}\n")))
        P.append(("BEGIN {\n if (1)\n print \"a\"\n else\n print \"b\"\n}", [], ("ok", "a\n")))
        P.append(("BEGIN\n{\n print \"a\"\n}\n", [], ("ok", "a\n")))
        P.append(("function f(a,\n b)\n{\n return a +\n b\n}\nBEGIN { print f(1,\n 2) }", [], ("ok", "3\n")))
        for kw in KEYWORDISH:
            P.append(("BEGIN { %s = 7; print %s + 1 }" % (kw, kw), [], ("ok", "8\n")))
            P.append(("BEGIN { o = {%s: 3}; print o.%s }" % (kw, kw), [], ("ok", "3\n")))
        for q in "\"'":
            for c in [chr(x) for x in range(32, 127)] + ["é", "\t"]:
                if c == q:
                    continue
                lit = q + "a\\" + c + "b" + q
                val = {"n": "a\nb", "t": "a\tb", "\\": "a\\b"}.get(c)
                P.append(("BEGIN { print %s; print 1 }" % lit, [], ("ok", val + "\n1\n") if val is not None else ("runtime", "")))
                if val is None and c in "q0x\"' u":
                    P.append(("BEGIN { if (false) print %s; print 1 }\nfunction never() { return %s }" % (lit, lit), [], ("ok", "1\n")))
            P.append(("BEGIN { print %sab\\%s; print 1 }" % (q, q), [], ("runtime", "")))
            P.append(("BEGIN { print %s\\\\%s }" % (q, q), [], ("ok", "\\\n")))
            P.append(("BEGIN { print %s\\n\\t\\\\n%s }" % (q, q), [], ("ok", "\n\t\\n\n")))
            P.append(("BEGIN { print %sa#b;c}d{e\nf%s }" % (q, q), [], ("ok", "a#b;c}d{e\nf\n")))
            o = "'" if q == '"' else '"'
            P.append(("BEGIN { print %sit%ss%s }" % (q, o, q), [], ("ok", "it%ss\n" % o)))
            P.append(("BEGIN { print %shéllo%s + %s wörld%s }" % (q, q, o, o), [], ("ok", "héllo wörld\n")))
        # long spellings of number literals (13-19 characters, trailing and leading zeros): the value is the nearest double
        # of the decimal text, whatever its length; two spellings of one decimal value are the same number
        for _ in range(250 if tier == "quick" else 5000):
            ip = str(rng.randrange(0, 1000))
            nd = rng.randrange(10, 17)
            fr = "".join(rng.choice("0123456789") for _ in range(nd - 1)) + rng.choice("123456789")
            z = "0" * rng.randrange(0, 5)
            lz = "0" * rng.choice([0, 0, 1, 2])
            a, b = ip + "." + fr, lz + ip + "." + fr + z
            P.append(("BEGIN { print %s\n print %s\n print %s == %s, %s - %s }" % (a, b, a, b, b, a), [],
                      ("ok", "%s\n%s\ntrue 0\n" % (pyref.fmt_f(float(a)), pyref.fmt_f(float(b))))))
        for prog, inputs, want in P:
            meta = {"what": "probe"}
            if want is not None:
                meta["want_outcome"], meta["want_stdout"] = want
            self.add_run(prog.encode("utf-8"), inputs, meta, True)
        return self.cases

    # ------------------------------------------------------------------ comments / blank space of every byte, at every position
    def comment_cases(self, rng, thorough):
        singles = [bytes([b]) for b in range(256) if b != 0x0A]
        dropped = made = 0
        for bi, (src, inputs, want) in enumerate(LAYOUT_BASES):
            lay = Layout(src, rng)
            sig0, err0 = token_signature(src)
            if not lay.ok or err0 is not None:
                continue
            toks = lay.toks
            key = "g%d" % self.n
            self.add_run(src, inputs, {"what": "layout base %d" % bi, "key": key, "layout": "original", "want_outcome": "ok", "want_stdout": want}, False)
            # positions: -1 = before the first token, i = between token i and i+1, len-1 = after the last token
            gaps = list(range(-1, len(toks)))

            def variant(g, body=None, blank=None):
                """the program with a comment (body) or blank space put into gap g; None where the statement forbids it there"""
                if g == -1:
                    head, gap, tail = b"", src[:toks[0].start], src[toks[0].start:]
                elif g == len(toks) - 1:
                    head, gap, tail = src[:toks[-1].end], src[toks[-1].end:], b""
                else:
                    head, gap, tail = src[:toks[g].end], src[toks[g].end:toks[g + 1].start], src[toks[g + 1].start:]
                if blank is not None:
                    k = rng.randint(0, len(gap))
                    return head + gap[:k] + blank + gap[k:] + tail
                pre = rng.choice([b"", b" ", b"\t", b"  "])
                if b"\n" in gap:
                    k = gap.index(b"\n") if rng.random() < 0.7 else gap.rindex(b"\n")
                    return head + gap[:k] + pre + b"#" + body + gap[k:] + tail
                if g == len(toks) - 1:
                    return head + gap + pre + b"#" + body + rng.choice([b"", b"\n"])      # a comment may end with the text
                if g == -1 or lay.newline_ok(g):
                    return head + gap + pre + b"#" + body + b"\n" + rng.choice([b"", b" ", b"\t"]) + tail
                return None

            def emit(g, text, what):
                nonlocal dropped, made
                if text is None or text == src:
                    return
                sig, err = token_signature(text)
                if err is not None or sig != sig0:
                    dropped += 1            # the reference lexer reads other tokens: it would be the layout engine's fault
                    return
                made += 1
                where = "before the first token" if g == -1 else "after the last token" if g == len(toks) - 1 else \
                    "between %r and %r" % (tok_text(src, toks[g]).decode(), tok_text(src, toks[g + 1]).decode())
                self.add_run(text, inputs, {"what": "layout base %d" % bi, "key": key, "layout": "%s %s" % (what, where),
                                            "want_outcome": "ok", "want_stdout": want, "prog_hex": text.hex()}, True)

            for g in gaps:
                for seq in VERY_SPECIAL:
                    hows = range(6) if thorough else [rng.randrange(6)]
                    for how in hows:
                        emit(g, variant(g, body=comment_body(rng, seq, how)), "comment holding %r (form %d)" % (seq, how))
                for blank in (BLANKS if thorough else rng.sample(BLANKS, 3)):
                    emit(g, variant(g, blank=blank), "blank space %r" % blank)
            for seq in SPECIAL + singles:
                if seq in VERY_SPECIAL:
                    continue
                reps = (len(gaps) if seq in SPECIAL else 40) if thorough else (8 if seq in SPECIAL else 1)
                for g in (gaps if reps == len(gaps) else [rng.choice(gaps) for _ in range(reps)]):
                    how = rng.randrange(6)
                    emit(g, variant(g, body=comment_body(rng, seq, how)), "comment holding %r (form %d)" % (seq, how))
        self.layout_dropped = dropped
        self.layout_made = made

    # ------------------------------------------------------------------ layouts of the cases of a match
    def match_layout_cases(self, rng, thorough):
        """match expressions whose cases are written one per line, all on one line with only spaces between them, with comments
        before the line ends, and with every gap (around '=>', between alternatives, inside the braces) chosen freely: one
        group per token sequence (cases closed by commas / by nothing / with a trailing comma); expression, block, literal bodies;
        in a print list, on the right of an assignment, as a statement.  Where no case's body can run into the next pattern the
        documented output is known as well (reference matcher of C19)."""
        import pyref
        from checks import c19
        specs = []
        for subj_src, cases, vline in FIXED_MATCHES:
            specs.append(("fixed", subj_src, cases, None, vline))
        n = 300 if thorough else 45
        made = 0
        while made < n:
            subj = c19.subject(rng, rng.choice([0, 1, 2, 2]))
            if c19.V.has_unset(subj):
                continue
            cl = [c for c in c19.make_cases(rng, subj) if c["alts"][0][0] != "bad"]
            if not cl:
                continue
            made += 1
            cases = []
            for c in cl:
                alts = [c19.pat_src(a) for a in c["alts"]]
                text = c19.case_src(c).split(" => ", 1)[1]
                if c["body"] == "block":
                    cases.append((alts, "block", text[1:-1].strip()))
                else:
                    cases.append((alts, "expr", text))
            env0 = {nm: "g" + nm for nm in c19.NAMES + ["_"]}
            try:
                printed, val = c19.match_value(subj, cl, env0)
                ref = ("ok", printed, pyref.pretty(val))
            except pyref.RuntimeErr:
                ref = ("runtime", [], None)
            safe = all(cl[i]["body"] == "block" or cl[i + 1]["alts"][0][0] != "arr" for i in range(len(cl) - 1))
            specs.append(("random", pyref.literal(subj), cases, (ref, safe), None))
        for what, subj_src, cases, ref, vline in specs:
            ctx = rng.choice(["print", "print", "assign", "stmt"])
            for commas in ("none", "between", "trailing"):
                key = "g%d" % self.n
                want = None
                if ref is None:
                    want = ("ok", [], vline)
                elif commas != "none" or ref[1]:
                    want = ref[0]
                styles = ["lines", "oneline", "comment", "loose", "loose", "tight"] + (["loose"] * 4 if thorough else [])
                seen = set()
                for style in styles:
                    text = self.match_program(rng, subj_src, cases, ctx, commas, style)
                    if text in seen:
                        continue
                    seen.add(text)
                    meta = {"what": "match layout (%s)" % what, "key": key, "layout": "%s, commas %s, %s" % (style, commas, ctx)}
                    if want is not None:
                        outcome, printed, v = want
                        if outcome == "ok":
                            lines = ["S"] + printed + (["V " + v] if ctx != "stmt" else []) + ["G " + " ".join("g" + nm for nm in MATCH_NAMES)]
                        else:
                            lines = ["S"]
                        meta["want_outcome"], meta["want_stdout"] = outcome, "".join(l + "\n" for l in lines)
                    self.add_run(text.encode(), [], meta, style != "lines")

    def match_program(self, rng, subj_src, cases, ctx, commas, style):
        def gap(kind):
            """kind: 'sep' between two cases, 'in' any other gap inside the match"""
            if style == "oneline" or (style == "lines" and kind == "in"):
                return " "
            if style == "tight":
                return " " if kind == "sep" and commas == "none" else ""
            if style == "lines":
                return "\n    "
            if style == "comment":
                return " " if kind == "in" else " #" + rng.choice(COMMENTS) + "\n  "
            if rng.random() < 0.5:
                return rng.choice(HSPACE)
            return Layout.newline_run(self_r(rng)).decode()
        parts = []
        for i, (alts, kind, body) in enumerate(cases):
            t = ""
            for j, a in enumerate(alts):
                t += a + (gap("in") + "," + gap("in") if j < len(alts) - 1 else "")
            t += gap("in") + "=>" + gap("in")
            if style == "tight" and kind == "expr" and body[0].isalnum():
                t += ""
            if kind == "block":
                t += "{" + gap("in") + body + gap("in") + "}" if body else "{" + gap("in") + "}"
            else:
                t += body
            last = i == len(cases) - 1
            if commas == "between" and not last or commas == "trailing":
                t += gap("in") + ","
            parts.append(t)
        inner = ""
        for i, t in enumerate(parts):
            inner += t + (gap("sep") if i < len(parts) - 1 else "")
        m = "match" + gap("in") + "(" + subj_src + ")" + gap("in") + "{" + gap("in") + inner + gap("in") + "}"
        head = 'function say(l, v) { print "B", l\n return v }\nBEGIN {\n' + "".join(' %s = "g%s"\n' % (nm, nm) for nm in MATCH_NAMES) + ' print "S"\n'
        if ctx == "print":
            mid = ' print "V", ' + m + "\n"
        elif ctx == "assign":
            mid = " res = " + m + '\n print "V", res\n'
        else:
            mid = " " + m + "\n"
        return head + mid + ' print "G", ' + ", ".join(MATCH_NAMES) + "\n}\n"

    def outside_strings(self, src, regex_aware=True):
        """the bytes of a program that are not inside string/regex literals or comments"""
        toks, err = lex(src, regex_aware=regex_aware)
        out = bytearray()
        for t in toks:
            if t.kind not in ("Str", "Regex"):
                out += src[t.start:t.end]
        return bytes(out)

    def add_run(self, src, inputs, meta, nontrivial):
        cid = "r%d" % self.n
        self.n += 1
        meta = dict(meta, prog=src.decode("utf-8", "replace"), input="\n".join(inputs))
        self.cases.append(Case(cid, simple_run(cid, src, inputs), meta, nontrivial))

    def add_lex(self, s, meta):
        cid = "x%d" % self.n
        self.n += 1
        b = s.encode("utf-8")
        self.cases.append(Case(cid, "LEX %s %s" % (cid, hx(b)), dict(meta, src=s, srchex=hx(b)), True))

    # ------------------------------------------------------------------ oracle
    def want_lex(self, src):
        toks, err = lex(src, regex_aware=False)
        out = []
        for t in toks:
            kind = t.kind
            if kind == "Error":
                tag = "1"
            elif kind == "Newline":
                tag = self.tags.get("Newline", "22")
            else:
                tag = self.tags.get(kind, "?")
            out.append((tag, t.pos, t.len))
        return out, ("syntax" if err is not None else "ok")

    def oracle(self, case, impl):
        m = case.meta
        if "srchex" in m:
            if len(impl.raw) != 5 or not getattr(self, "tags", None):
                if not getattr(self, "tags", None):
                    self.tags = jqlex.discover_tags(run_impl, hx)
                if len(impl.raw) != 5 or not self.tags:
                    return None
            src = unhx(m["srchex"])
            want, status = self.want_lex(src)
            got = []
            if impl.raw[0] != "-":
                for t in impl.raw[0].split(","):
                    a, b, c = t.split(":")
                    got.append((a, int(b), int(c)))
            # the newline tag is learnt from the implementation itself on a trivial text; the EOF position is not compared
            def norm(ts):
                return [(a, (p if a != self.tags["EOF"] else -1), l) for a, p, l in ts]
            nl = self.tags.get("Newline")
            if nl is None:
                r = run_impl(["LEX nlprobe %s" % hx("\n")]).get("nlprobe", ["-"])
                nl = self.tags["Newline"] = r[0].split(",")[0].split(":")[0] if r[0] != "-" else "22"
                want, status = self.want_lex(src)
            if impl.raw[1] != status or norm(got) != norm(want):
                return "LEX %r: documented tokens %s (%s), implementation %s (%s)" % (m["src"], want, status, got, impl.raw[1])
            return None
        if "want_outcome" in m:
            want = (m["want_outcome"], m["want_stdout"].encode())
            got = (impl.outcome, impl.stdout)
            if got != want:
                return "%r: documented %r, implementation %r" % (m["prog"], want, got)
        return None

    def extra(self, ctx):
        viol = []
        groups = {}
        for c in ctx["cases"]:
            if "key" in c.meta and c.line:
                groups.setdefault(c.meta["key"], []).append(c)
        ngroups = nlay = 0
        for key, cs in groups.items():
            if key.startswith("g"):
                ref = None
                ngroups += 1
                for c in cs:
                    r = RunRes(ctx["impl"].get(c.id, []))
                    if r.outcome in ("timeout", "noresult", "crash"):
                        continue
                    v = (r.outcome, r.stdout)
                    nlay += 1
                    if ref is None:
                        ref = (c, v)
                    elif v != ref[1]:
                        viol.append((c, "two layouts of one token sequence behave differently: %s gives %r, %s gives %r; texts: %r vs %r"
                                     % (ref[0].meta["layout"], ref[1], c.meta["layout"], v, ref[0].meta["prog"], c.meta["prog"])))
                        break
            elif key.startswith("q"):
                # a pair that does not glue lexes to the same two tokens with and without a separator
                if cs[0].meta.get("glues"):
                    continue
                base = None
                for c in cs:
                    f = ctx["impl"].get(c.id, [])
                    if len(f) != 5:
                        continue
                    kinds = [(t.split(":")[0], t.split(":")[2]) for t in f[0].split(",") if t.split(":")[0] != (self.tags or {}).get("Newline", "22")] if f[0] != "-" else []
                    v = (kinds, f[1])
                    if base is None:
                        base = (c, v)
                    elif v != base[1]:
                        viol.append((c, "tokens %r and %r written as %r lex to %r, written as %r to %r"
                                     % (c.meta["a"], c.meta["b"], base[0].meta["src"], base[1], c.meta["src"], v)))
                        break
        return viol, {"layout_groups": ngroups, "layouts_compared": nlay, "programs_skipped": getattr(self, "skipped", 0),
                      "byte_layouts": getattr(self, "layout_made", 0), "byte_layouts_dropped": getattr(self, "layout_dropped", 0)}


CHECK = C13()
