"""C14: the command line is a faithful wrapper: -f, stdin, -r, -o, file order, exit code."""
import os, json, subprocess, tempfile, shutil, resource, signal, stat
from concurrent.futures import ThreadPoolExecutor
from framework import Check, Case
from jqlib import run_case, RunRes, JQAWK, BUILD, unhx
import genprog

DOC1 = ('{"status":"success","result":[{"name":"alligator","n":1},{"name":"someone else","n":2}],"a":{"b":[1,2],"k":"v"},'
        '"num":5,"str":"s","list":[3,1,2],"obj":{"z":1,"y":[{"q":1}]}}')
DOC2 = '[{"name":"Beth","rate":4,"hours":0},{"name":"Dan","rate":3.75,"hours":0},{"name":"Kathy","rate":4,"hours":10}]'
DOC3 = '{"result":[1,2,3],"a":1,"list":[]}\n{"result":{"k":[true]},"a":{"b":"x"},"list":[[1],[2]]}'
DOCS = [DOC1, DOC1, DOC2, DOC3, "[]", "{}", "5", "\"text\"", "null", "[[1,2],[3]]", "[1,2,3]\n[4]", "{\"a\":{\"b\":{\"c\":1}}}"]
MALFORMED = ['{"a":', "[1,2", "nope", "[1] ]", '{"a":1}}', "[1,2,3]\n{", "\x00", "{'a':1}", "[1,,2]", "tru"]

PROGS_OK = [
    "{ print $.name }", "{ count++ } END { print count }", "BEGIN { print 'start' }\n{ print $file, $index, $ }\nEND { print 'end' }",
    "{ $.x = 1 }", "{ $.name_length = $.name.length() }", "$.n > 1 { print $.n }", "{ print }", "", "{}", "BEGIN { print 'only begin' }",
    "BEGINFILE { print 'bf', $file }\nENDFILE { print 'ef', $file }\n{ print $index }", "{ total += $.rate * $.hours }\nEND { print total }",
    "{ $ = $.pluck('name') }", "{ print json($) }", "END { print 'n', n }\n{ n++ }", "{ if ($index == 1) exit\n print $index }\nEND { print 'end' }",
    "BEGIN { exit }\n{ print 'never' }", "{ $.list = [1, [], {}] }", "{ printf('%s|%5v|\\n', $file, $index) }", "{ $ = 5 }", "{ $[0] = 'first' }",
    "function f(a) { return a + 1 }\n{ print f($index) }", "{ next\n print 'no' }\nEND { print 'done' }", "{ x = $.a.b.c\n y = $[7] }",
    "# only a comment", "{ print 'é', '\\t|' }",
]
PROGS_SYNTAX = ["{ print ( }", "{ print 1, @ }", "BEGIN {", "{ x = }", "BEGIN { print 'a' }\n{ print $.(", "function { }", "{ print 'unterminated }", "}"]
PROGS_RUNTIME = [
    "{ print 'before'\n print 1/0\n print 'after' }", "END { x = [1]\n print 'e'\n print x[-5] }", "BEGIN { print 'b'\n f() }", "{ print $.name\n $.name.x.y = 1 }",
    "{ print $index }\nEND { print 1 % 0 }", "BEGIN { printf('%d') }", "{ x = 'a' ~ '(' }", "{ $ = num('inf') }", "{ a = [1]\n a[0] = a\n $ = a }",
    "BEGIN { next }", "{ print json(printf) }",
]
SEL_OK = ["$", "$.result", "$.a", "$.a.b", "$.list", "$.num", "$.str", "$.missing", "$.missing.deeper", "$[0]", "$[1]", "$.result[0]", "$.obj.y",
          "$.pluck('a', 'num')", "$.list.sort()", "$.a.b[5]", "$[9]", "$.str[0]", "$.num + 1", "[$, $]", "{k: $}", "$.result.length()", "null", "'lit'"]
SEL_BAD = ["$.(", "1 +", "$[-99]", "1/0", "nosuch(1)"]
# programs for the -r E == BEGINFILE { $ = E } relation (no BEGINFILE / ENDFILE rule of their own)
REL_PROGS = ["{ print }", "{ print $index, $ }", "{ $.x = 1 }", "{ $.x = 1\n print $ }", "{ n++ }\nEND { print n }", "{ $ = 5 }", "{ $[0] = 9 }", "{ $.a.b = 2 }",
             "BEGIN { print 'b' }\n{ print $file }\nEND { print 'e' }", "{ $.name = 'changed' }", "", "{ print json($) }", "$ { print 'truthy' }",
             "{ for (k, v in $) print k, v }", "{ $.k.deep[2] = 1 }", "{ x = $\n x.viax = 1 }", "{ print $.length() }", "{ $ = [$, 1] }", "{ exit }", "{ $++ }",
             "{ $ += 1\n print }"]


# -o destinations that cannot take the document.  create fails: a path in a missing directory, a path below a regular file, a directory,
# a read-only file, a file in a read-only directory (the last two only when the current user really cannot write there: root can);
# create succeeds and the WRITE fails: /dev/full (ENOSPC), a regular file under a file-size limit of 0 bytes (nothing can be written)
# or of a few bytes (the document is cut short)
OFAULTS = ["full", "fsize0", "fsize-short", "missingdir", "notdir", "isdir", "readonly", "rodir", "dotdir"]
OFAULT_PROGS = ["{ print $.name }", "{ $.x = 1 }", "{ $.x++\n print 'x is', $.x }", "{ print }", "", "BEGIN { print 'only begin' }", "{ $ = 5 }", "{ $ = [$, 1] }",
                "{ $.list = [1, [], {}] }", "{ n++ }\nEND { print n }", "{ $ = $.pluck('name') }", "BEGIN { printf('%s|', 'no newline') }",
                "{ for (i = 0; i < 300; i++) { $.arr[i] = 'element number ' + i } }", "{ print json($) }"]

# ---- printf verbs and percent signs in everything that reaches standard output or the -o document: keys, values, $file names, program
# output.  The bytes written are the bytes the library produces, never a format string.
PCT_DOCS = ['{"rate":"50% discount","cpu":"100%"}', '{"%d":"%s","%v":["%!d(MISSING)","%%","%"],"100%":{"%5.2f":"%x","k":"%!(EXTRA string=x)"}}',
            '["%d %s %v","%!d(MISSING)","%%","%","%[1]d","%*d","%n","%!(NOVERB)","%!s(PANIC=x)"," % "]', '"%s"', '"%"', '{"a":"%"}\n{"a":"%%d"}',
            '[{"name":"100%","n":1},{"name":"%d","n":2}]', '{"%":{"%":{"%":"%"}}}', '{"k":"ends in %"}', '{"k":"%\\n%s\\t%v"}']
PCT_PROGS = ["{ $.seen = true }", "{ print }", "", "{ $.f = $file }", "{ $[\"%d\"] = \"%s %v\" }", "{ print \"%d %s %v %!d(MISSING) %% %\" }", "{ $ = \"100%\" }",
             "{ $ = [\"%d\", $file, $] }", "BEGIN { printf(\"%s%%|%v\\n\", \"%d\", \"100%\") }\n{ $.p = \"%\" }", "{ for (k, v in $) print k, v }", "{ print json($) }",
             "{ $ = {\"%s\": $file, \"%\": $} }", "END { print \"100%\" }", "{ printf(\"%v%%\", 5) }", "{ print $file, \"%v\"\n $.name = \"%!s(MISSING)\" }",
             "{ $ = $file + \"%d\" }", "BEGINFILE { print \"%s\", $file }\n{ $[$file] = \"%\" }", "{ x = \"%\"\n $ = [x, x + x, x + \"d\"] }"]
PCT_NAMES = ["100%d.json", "%s %v.json", "%!d(MISSING).json", "50%.json", "sub/%%.json", "%", "in0.json", "%[1]s.json"]
PCT_SELS = ["'100%'", "$[\"%d\"]", "{\"%v\": $}", "['%s', $]"]

# ---- program output that does not end in a line break (or is empty), followed by the -o - document: the document comes after ALL of it
NONL_PROGS = ["{ printf(\"%v,\", $.n); $.n = $.n * 10 } END { printf(\"total: \") }", "BEGIN { printf(\"x\") }", "BEGIN { printf(\"only begin, no newline\") }\n{ $.x = 1 }",
              "END { print \"line\"\n printf(\"tail\") }", "{ printf(\"%v\", $index) }", "{ print $index\n printf(\"-\") }", "BEGIN { printf(\"a\\nb\") }",
              "BEGIN { printf(\"\\n\\nx\") }", "{ $.x = 1 }", "", "BEGIN { printf(\"\") }", "ENDFILE { printf(\"ef %s\", $file) }",
              "BEGINFILE { printf(\"bf\") }\n{ print }\nEND { printf(\"end\") }", "BEGIN { printf(\" \") }", "{ printf(\"%s\\r\", \"cr\") }", "BEGIN { print \"é\"\n printf(\"é\") }",
              "BEGIN { printf(\"partial\")\n x = 1 / 0 }", "{ printf(\"%v;\", $index)\n if ($index == 1) exit }\nEND { printf(\"end\") }", "BEGIN { printf(\"b\")\n exit }\n{ print \"never\" }",
              "{ $ = 7\n printf(\"[\") }", "END { printf(\"{\\\"not\\\": \\\"the document\\\"}\") }", "BEGIN { print \"line\" }\nEND { printf(\"%v %v\", 1, 2) }",
              "{ print }\nEND { printf(\"after the records\") }", "function f(a) { printf(\"%v|\", a)\n return a }\n{ $.v = f($index) }",
              # long output without a line break: around the usual buffer sizes, in one piece and in thousands of small pieces
              "BEGIN { s = \"0123456789abcdef\"\n for (i = 0; i < 8; i++) { s = s + s }\n printf(\"%s\", s) }\nEND { printf(\"tail\") }",
              "BEGIN { s = \"0123456789abcdef\"\n for (i = 0; i < 12; i++) { s = s + s }\n printf(\"%s\", s) }",
              "BEGIN { s = \"0123456789abcdef\"\n for (i = 0; i < 12; i++) { s = s + s }\n printf(\"%s\", s)\n printf(\"x\") }\n{ $.x = 1 }",
              "BEGIN { s = \"0123456789abcdef\"\n for (i = 0; i < 12; i++) { s = s + s }\n print s\n printf(\"%s\", s)\n printf(\"tail\") }",
              "BEGIN { for (i = 0; i < 3000; i++) { printf(\"%v,\", i) } }\nEND { printf(\"end\") }",
              "BEGIN { for (i = 0; i < 1500; i++) { print i\n printf(\"%v\", i) } }"]
NONL_DOCS = ['[{"n":1},{"n":2}]', DOC2, "[1,2,3]", "{}", "5", '{"a":{"b":[1,2]}}', "[1]\n[2]"]


def _fsize_limit(n):
    def pre():
        signal.signal(signal.SIGXFSZ, signal.SIG_IGN)
        resource.setrlimit(resource.RLIMIT_FSIZE, (n, n))
    return pre


STALE = b'{"stale": "' + b"old bytes " * 800 + b'"}\n'


def safe_inline(prog):
    return not prog.startswith("-") and "\x00" not in prog


class Scenario:
    def __init__(self, sid, prog, files, selectors, kind, fault=None):
        self.id, self.prog, self.files, self.selectors, self.kind, self.fault = sid, prog, files, list(selectors), kind, fault

    def meta(self, **kw):
        m = {"scenario": self.id, "kind": self.kind, "prog": self.prog, "files": [[n, t] for n, t in self.files], "selectors": self.selectors,
             "fault": self.fault}
        m.update(kw)
        return m


def lib_line(cid, prog, files, selectors):
    fl = []
    for name, text in files:
        b = text.encode("utf-8", "surrogateescape")
        fl.append((name, [b[k:k + 512] for k in range(0, len(b), 512)], False))
    return run_case(cid, prog, fl, selectors, fuzz=False)


class C14(Check):
    pid = "C14"
    props = ["C14_cli.v"]
    rule = ("configurations of the real binary in a scratch directory: {-f file, inline} x {stdin, 1 file, 2-3 files} x {0, 1, 2 -r selectors} x "
            "{no -o, -o -, -o path} x {ok, syntax error, runtime error, JSON that cannot be written, malformed input, missing file, "
            "directory instead of a file, unwritable -o path, -o with several inputs} and -o to every kind of destination that cannot take the "
            "document {/dev/full, file-size limit 0 / a few bytes, missing directory, path below a file, a directory, read-only file, "
            "read-only directory} x {-f, inline} x {file, stdin}: non-zero exit and a diagnostic after the program's own output; stdout / exit status / -o bytes are compared with "
            "the library's result (RUN case: stdout, GetRootJson, outcome) for the same program, selectors and inputs; -f vs inline, stdin "
            "vs file, -o FILE vs -o -, and -r E vs BEGINFILE { $ = E } (library and binary) are compared with each other.  Also documents, keys, "
            "$file names, selectors and program output full of printf verbs and percent signs (-o FILE and -o - must hold the library's bytes), and "
            "programs whose output is empty or does not end in a line break (printf in END / BEGIN only / per record, after exit, before a runtime "
            "fault, 4 KiB - 128 KiB in one piece, thousands of small pieces): with -o - the document follows ALL program output byte for byte.  non-trivial = at "
            "least two non-default options")

    def generate(self, rng, tier):
        self.scenarios = []
        self.rels = []
        cases = []
        n = 260 if tier == "quick" else 4000
        for i in range(n):
            sid = "c%d" % i
            w = rng.random()
            kind = "ok"
            if w < 0.45:
                prog = rng.choice(PROGS_OK)
            elif w < 0.6:
                prog = genprog.rand_program(rng, 2)
                while "while" in prog or "for (" in prog:       # the binary has no loop limit: keep random programs loop-free
                    prog = genprog.rand_program(rng, 2)
                kind = "random"
            elif w < 0.7:
                prog, kind = rng.choice(PROGS_SYNTAX), "syntax"
            else:
                prog, kind = rng.choice(PROGS_RUNTIME), "runtime"
            if w >= 0.85:
                prog, kind = rng.choice(PROGS_OK), "ok"
            nfiles = rng.choice([1, 1, 1, 1, 2, 2, 3])
            files = []
            for k in range(nfiles):
                name = rng.choice(["in%d.json" % k, "data %d.json" % k, "sub/in%d.json" % k])
                text = rng.choice(DOCS) if rng.random() < 0.7 else genprog.rand_input(rng)
                files.append((name, text))
            fault = None
            f = rng.random()
            if f < 0.1:
                k = rng.randrange(nfiles)
                files[k] = (files[k][0], rng.choice(MALFORMED))
                kind += "+malformed"
            elif f < 0.15:
                fault = ("missing", rng.randrange(nfiles))
            elif f < 0.19:
                fault = ("directory", rng.randrange(nfiles))
            elif f < 0.22:
                fault = ("outdir", 0)
            elif f < 0.24:
                fault = ("noprogfile", 0)
            if fault and fault[0] == "directory":
                prog, kind = rng.choice(["{ print }", "{ n++ }\nEND { print n }", "BEGIN { print 'b' }\n{ print $file }"]), "ok"   # a program that reads its input
            nsel = rng.choice([0, 0, 0, 1, 1, 2])
            sels = [rng.choice(SEL_OK) if rng.random() < 0.9 else rng.choice(SEL_BAD) for _ in range(nsel)]
            sc = Scenario(sid, prog, files, sels, kind, fault)
            self.scenarios.append(sc)
            if fault is None or fault[0] == "outdir":
                cid = sid + "F"
                cases.append(Case(cid, lib_line(cid, prog, files, sels), sc.meta(role="library run, named files"), True))
                if nfiles == 1:
                    cid = sid + "S"
                    cases.append(Case(cid, lib_line(cid, prog, [("<stdin>", files[0][1])], sels), sc.meta(role="library run, stdin"), True))
            else:
                cases.append(Case(sid + "X", None, sc.meta(role="front-end fault, binary only"), True))
        # ---- programs without a pattern rule on every malformed document (always, not by chance): the input is still read
        # and validated, from a named file and from stdin alike
        k = 0
        for prog in ("BEGIN { print 'hi' }", "END { print 'end' }", "BEGIN { print 'b' }\nEND { print 'e' }", "", "# nothing",
                     "function f() { return 1 }\nBEGIN { print f() }", "BEGINFILE { print 'bf' }"):
            for text in MALFORMED + ['{"a": [1, 2', "[1] [2", '{"a":1} {"a":']:
                sid = "np%d" % k
                k += 1
                files = [("in0.json", text)]
                sc = Scenario(sid, prog, files, [], "nopattern+malformed", None)
                self.scenarios.append(sc)
                cases.append(Case(sid + "F", lib_line(sid + "F", prog, files, []), sc.meta(role="library run, named files"), True))
                cases.append(Case(sid + "S", lib_line(sid + "S", prog, [("<stdin>", text)], []), sc.meta(role="library run, stdin"), True))
        # ---- -o to a destination that cannot take the document (every kind of OFAULTS for every scenario)
        self.oscen = []
        n = 80 if tier == "quick" else 800
        for i in range(n):
            sid = "w%d" % i
            w = rng.random()
            if w < 0.7:
                prog, kind = rng.choice(OFAULT_PROGS), "ok"
            elif w < 0.8:
                prog, kind = rng.choice(PROGS_OK), "ok"
            elif w < 0.9:
                prog, kind = rng.choice(PROGS_RUNTIME), "runtime"
            else:
                prog, kind = rng.choice(PROGS_SYNTAX), "syntax"
            nfiles = rng.choice([1, 1, 1, 1, 1, 2])
            files = [(rng.choice(["in%d.json" % k, "data %d.json" % k, "sub/in%d.json" % k]), rng.choice(DOCS) if rng.random() < 0.8 else genprog.rand_input(rng))
                     for k in range(nfiles)]
            if rng.random() < 0.06:
                files[0] = (files[0][0], rng.choice(MALFORMED))
                kind += "+malformed"
            sels = [rng.choice(SEL_OK)] if rng.random() < 0.25 else []
            sc = Scenario(sid, prog, files, sels, kind + ", -o to a failing destination", ("ofault", 0))
            self.oscen.append(sc)
            cases.append(Case(sid + "F", lib_line(sid + "F", prog, files, sels), sc.meta(role="library run, named files"), True))
            if nfiles == 1:
                cases.append(Case(sid + "S", lib_line(sid + "S", prog, [("<stdin>", files[0][1])], sels), sc.meta(role="library run, stdin"), True))
        # ---- -r E  vs  BEGINFILE { $ = E }
        n = 160 if tier == "quick" else 2500
        for i in range(n):
            sid = "r%d" % i
            prog = rng.choice(REL_PROGS)
            e = rng.choice(SEL_OK + ["$[-99]", "1/0"])
            nfiles = rng.choice([1, 1, 1, 2])
            files = [("in%d.json" % k, rng.choice(DOCS) if rng.random() < 0.8 else genprog.rand_input(rng)) for k in range(nfiles)]
            sc = Scenario(sid, prog, files, [e], "selector-vs-beginfile")
            bf = "BEGINFILE { $ = %s }\n%s" % (e, prog)
            self.rels.append((sc, bf))
            cases.append(Case(sid + "R", lib_line(sid + "R", prog, files, [e]), sc.meta(role="-r E"), True, ("rel",)))
            cases.append(Case(sid + "B", lib_line(sid + "B", bf, files, []), sc.meta(role="BEGINFILE { $ = E }", prog=bf, selectors=[]), True, ("rel",)))
        # ---- (added last) percent signs everywhere; program output without a final line break in front of the -o - document
        quick = tier == "quick"

        def scen(prefix, prog, files, sels, kind):
            sid = "%s%d" % (prefix, len([x for x in self.scenarios if x.id.startswith(prefix)]))
            sc = Scenario(sid, prog, files, sels, kind)
            self.scenarios.append(sc)
            cases.append(Case(sid + "F", lib_line(sid + "F", prog, files, sels), sc.meta(role="library run, named files"), True, (kind,)))
            if len(files) == 1:
                cases.append(Case(sid + "S", lib_line(sid + "S", prog, [("<stdin>", files[0][1])], sels), sc.meta(role="library run, stdin"), True, (kind,)))

        pairs = [(p, d) for p in PCT_PROGS for d in PCT_DOCS]
        if quick:
            pairs = [(p, rng.choice(PCT_DOCS)) for p in PCT_PROGS] + [(p, rng.choice(PCT_DOCS)) for p in PCT_PROGS] + [(rng.choice(PCT_PROGS), d) for d in PCT_DOCS]
        for prog, doc in pairs:
            nfiles = rng.choice([1, 1, 1, 1, 2])
            names = rng.sample(PCT_NAMES, nfiles)
            files = [(names[0], doc)] + [(nm, rng.choice(PCT_DOCS)) for nm in names[1:]]
            sels = [rng.choice(PCT_SELS)] if rng.random() < 0.15 else []
            scen("p", prog, files, sels, "percent signs")
        pairs = [(p, d) for p in NONL_PROGS for d in NONL_DOCS]
        if quick:
            pairs = [(p, rng.choice(NONL_DOCS)) for p in NONL_PROGS] + [(p, rng.choice(NONL_DOCS)) for p in NONL_PROGS[:24]]
        for prog, doc in pairs:
            files = [(rng.choice(["in0.json", "data 0.json", "sub/in0.json"]), doc)]
            if rng.random() < 0.1:
                files.append(("in1.json", rng.choice(NONL_DOCS)))
            scen("n", prog, files, [], "output without a final line break")
        # ---- several -r selectors whose results overlap, under rules that write: each selector is evaluated on the
        # document as it was read (-r E is BEGINFILE { $ = E } on a fresh copy), through the library and through the binary
        doc_a = '{"items":[{"k":"a","n":1},{"k":"b","n":2}],"n":5,"k":"top"}'
        doc_b = "[[1,2],[3,4]]"
        for prog in ["{ $.n = $.n * 10; print $index, $.n }", "{ $.n++; print $.k, $.n }"]:
            for sels in [["$.items", "$.items"], ["$", "$.items"], ["$.items[0]", "$.items"], ["$.items[0].n = 7", "$.items"]]:
                scen("v", prog, [("in0.json", doc_a)], sels, "overlapping selectors")
        for prog in ["{ print $; $ = 0 }", "{ $[0] = \"w\"; print }"]:
            for sels in [["$", "$"], ["$[0]", "$"], ["$", "$[0]", "$"]]:
                scen("v", prog, [("in0.json", doc_b)], sels, "overlapping selectors")
        return cases

    def oracle(self, case, impl):
        return None

    def project(self, r):
        # the observables of this property: outcome class, standard output, JSON output (not the frame depth)
        return (r.outcome, r.stdout, r.json)

    # ---------------------------------------------------------------- the binary
    def run_bin(self, d, prog, prog_mode, files, selectors, out_mode, stdin_bytes=None, fault=None):
        """returns dict(rc, out, err, ofile) or None on timeout"""
        wd = tempfile.mkdtemp(prefix="w", dir=d)
        try:
            args = [JQAWK]
            for s in selectors:
                args += ["-r", s]
            outp = os.path.join(wd, "out.json")
            if out_mode == "dash":
                args += ["-o", "-"]
            elif out_mode == "inplace":
                # the output file is the (single) input file: an in-place edit
                outp = os.path.join(wd, files[0][0])
                args += ["-o", files[0][0]]
            elif out_mode == "path":
                if fault and fault[0] == "outdir":
                    os.mkdir(os.path.join(wd, "odir"))
                    args += ["-o", "odir"]
                else:
                    args += ["-o", "out.json"]
                    if len(prog) % 2 == 0:
                        # the output file exists already and is longer than anything written here:
                        # -o FILE must leave exactly the document in it, not a prefix of the old bytes
                        with open(outp, "wb") as f:
                            f.write(STALE)
            if prog_mode == "file":
                if not (fault and fault[0] == "noprogfile"):
                    with open(os.path.join(wd, "prog.jqawk"), "wb") as f:
                        f.write(prog.encode("utf-8", "surrogateescape"))
                args += ["-f", "prog.jqawk"]
            else:
                args.append(prog)
            for k, (name, text) in enumerate(files):
                p = os.path.join(wd, name)
                os.makedirs(os.path.dirname(p), exist_ok=True)
                if fault and fault[1] == k and fault[0] == "missing":
                    pass
                elif fault and fault[1] == k and fault[0] == "directory":
                    os.makedirs(p, exist_ok=True)
                else:
                    with open(p, "wb") as f:
                        f.write(text.encode("utf-8", "surrogateescape"))
                args.append(name)
            try:
                p = subprocess.run(args, cwd=wd, input=stdin_bytes if stdin_bytes is not None else b"", stdout=subprocess.PIPE,
                                   stderr=subprocess.PIPE, timeout=6)
            except subprocess.TimeoutExpired:
                return None
            ofile = None
            if os.path.isfile(outp):
                ofile = open(outp, "rb").read()
                if ofile == STALE:
                    ofile = None            # untouched = not written
            return {"rc": p.returncode, "out": p.stdout, "err": p.stderr, "ofile": ofile, "argv": args[1:]}
        finally:
            shutil.rmtree(wd, ignore_errors=True)

    def judge(self, lib, r, out_mode, ninputs):
        """the binary's result r against the library result lib for the same program, selectors and inputs"""
        if b"goroutine " in r["err"] or b"panic:" in r["err"]:
            return "crash trace on stderr"
        ofile = r["ofile"] or b""
        touched = r["ofile"] is not None      # the -o file exists and is not the stale file put there before the run
        if lib.outcome == "ok":
            if out_mode == "none":
                if r["rc"] != 0:
                    return "library run succeeds, exit status %d: %r" % (r["rc"], clip(r["err"]))
                if r["out"] != lib.stdout:
                    return "stdout differs from the library's: %r vs %r" % (clip(r["out"]), clip(lib.stdout))
                return None
            if ninputs > 1:
                if r["rc"] == 0 or not r["err"].strip():
                    return "-o with several inputs must fail with a diagnostic: exit %d, stderr %r" % (r["rc"], clip(r["err"]))
                if not lib.stdout.startswith(r["out"]):
                    return "-o with several inputs: stdout %r is not (a prefix of) the program's output %r" % (clip(r["out"]), clip(lib.stdout))
                if touched:
                    return "-o with several inputs wrote (or truncated) a file: %r" % clip(ofile)
                return None
            if lib.json in ("!", "P"):
                if r["rc"] == 0 or not r["err"].strip():
                    return "root cannot be written as JSON, but exit %d, stderr %r" % (r["rc"], clip(r["err"]))
                if r["out"] != lib.stdout or touched:
                    return "root cannot be written as JSON, but output %r / file %r" % (clip(r["out"]), clip(ofile))
                return None
            payload = unhx(lib.json)
            if r["rc"] != 0:
                return "library run succeeds, exit status %d: %r" % (r["rc"], clip(r["err"]))
            if out_mode == "dash":
                if r["out"] != lib.stdout + payload:
                    return "-o -: stdout %r, library stdout + JSON %r" % (clip(r["out"]), clip(lib.stdout + payload))
            else:
                if r["out"] != lib.stdout:
                    return "-o FILE: stdout %r, library %r" % (clip(r["out"]), clip(lib.stdout))
                if r["ofile"] is None or r["ofile"] != payload:
                    return "-o FILE: file holds %r, library JSON %r" % (clip(r["ofile"]), clip(payload))
            return None
        if lib.outcome in ("syntax", "runtime", "json"):
            if r["rc"] == 0:
                return "library run ends in a %s error, exit status 0" % lib.outcome
            if not r["err"].strip():
                return "no diagnostic on stderr for a %s error" % lib.outcome
            if r["out"] != lib.stdout:
                return "%s error: stdout %r, library %r" % (lib.outcome, clip(r["out"]), clip(lib.stdout))
            if touched:
                return "%s error, but the -o file was written (or truncated): %r" % (lib.outcome, clip(ofile))
            return None
        return None     # panic / raw / timeout of the library run: not this property's business

    def scenario_checks(self, d, sc, impl):
        """list of (meta extras, why)"""
        out = []
        stats = {"runs": 0, "timeouts": 0}

        def run(*a, **kw):
            r = self.run_bin(d, *a, **kw)
            stats["runs"] += 1
            if r is None:
                stats["timeouts"] += 1
            return r

        modes = ["file"] + (["inline"] if safe_inline(sc.prog) else [])
        if sc.fault and sc.fault[0] != "outdir":
            for pm in modes:
                if sc.fault[0] == "noprogfile" and pm == "inline":
                    continue
                for om in ("none", "dash"):
                    r = run(sc.prog, pm, sc.files, sc.selectors, om, fault=sc.fault)
                    if r is None:
                        continue
                    why = None
                    if b"goroutine " in r["err"] or b"panic:" in r["err"]:
                        why = "crash trace on stderr"
                    elif r["rc"] == 0 or not r["err"].strip():
                        why = "%s: exit status %d, stderr %r" % (sc.fault[0], r["rc"], clip(r["err"]))
                    if why:
                        out.append(({"argv": r["argv"]}, why))
            return out, stats
        lib = RunRes(impl.get(sc.id + "F", []))
        if lib.outcome in ("timeout", "noresult", "crash", "badcase", "panic", "raw"):
            return out, stats
        n = len(sc.files)
        res = {}
        for pm in modes:
            for om in ("none", "dash", "path"):
                r = run(sc.prog, pm, sc.files, sc.selectors, om, fault=sc.fault)
                if r is None:
                    continue
                res[(pm, om)] = r
                if sc.fault and om == "path":
                    # -o names a directory: the JSON cannot be written
                    if lib.outcome == "ok" and n == 1 and (r["rc"] == 0 or not r["err"].strip()):
                        out.append(({"argv": r["argv"]}, "unwritable -o path: exit status %d, stderr %r" % (r["rc"], clip(r["err"]))))
                    continue
                why = self.judge(lib, r, om, n)
                if why:
                    out.append(({"argv": r["argv"]}, why))
        # -f vs inline
        for om in ("none", "dash", "path"):
            a, b = res.get(("file", om)), res.get(("inline", om))
            if a and b and (a["rc"], a["out"], a["ofile"]) != (b["rc"], b["out"], b["ofile"]):
                out.append(({"argv": a["argv"], "argv2": b["argv"]}, "-f and inline differ: exit %d %r vs exit %d %r" % (a["rc"], clip(a["out"]), b["rc"], clip(b["out"]))))
        # -o FILE bytes == what -o - prints after the program's output
        a, b, c = res.get(("file", "none")), res.get(("file", "dash")), res.get(("file", "path"))
        if a and b and c and not sc.fault and a["rc"] == 0 and b["rc"] == 0 and c["rc"] == 0:
            if not b["out"].startswith(a["out"]) or (c["ofile"] or b"") != b["out"][len(a["out"]):]:
                out.append(({"argv": c["argv"]}, "-o FILE holds %r, -o - appended %r" % (clip(c["ofile"]), clip(b["out"][len(a["out"]):]))))
        # in place: -o names the input file itself; it is read before it is overwritten, and left alone on an error
        if n == 1 and not sc.fault and a and b:
            r = run(sc.prog, "file", sc.files, sc.selectors, "inplace")
            if r is not None:
                orig = sc.files[0][1].encode("utf-8", "surrogateescape")
                if (r["rc"] == 0) != (b["rc"] == 0) or r["out"] != a["out"]:
                    out.append(({"argv": r["argv"]}, "in-place -o: exit %d stdout %r, with -o - exit %d and the program printed %r"
                                % (r["rc"], clip(r["out"]), b["rc"], clip(a["out"]))))
                elif b["rc"] == 0 and b["out"].startswith(a["out"]) and r["ofile"] != b["out"][len(a["out"]):]:
                    out.append(({"argv": r["argv"]}, "in-place -o: the file holds %r, -o - appended %r" % (clip(r["ofile"]), clip(b["out"][len(a["out"]):]))))
                elif b["rc"] != 0 and r["ofile"] != orig:
                    out.append(({"argv": r["argv"]}, "in-place -o: the run failed but the input file was changed to %r" % clip(r["ofile"])))
        # stdin vs file
        if n == 1 and not sc.fault:
            libs = RunRes(impl.get(sc.id + "S", []))
            if libs.outcome not in ("timeout", "noresult", "crash", "badcase", "panic", "raw"):
                for pm in modes[:1] if sc.id[-1] in "02468" else modes[-1:]:
                    for om in ("none", "dash"):
                        r = run(sc.prog, pm, [], sc.selectors, om, stdin_bytes=sc.files[0][1].encode("utf-8", "surrogateescape"))
                        if r is None:
                            continue
                        why = self.judge(libs, r, om, 1)
                        if why:
                            out.append(({"argv": r["argv"], "stdin": True}, "input on stdin: " + why))
                        f = res.get((pm, om))
                        if f and "$file" not in sc.prog and sc.kind != "random" and (f["rc"], f["out"]) != (r["rc"], r["out"]):
                            out.append(({"argv": r["argv"], "stdin": True}, "stdin and file differ for a program that does not use $file: exit %d %r vs exit %d %r"
                                        % (r["rc"], clip(r["out"]), f["rc"], clip(f["out"]))))
        return out, stats

    def run_ofault(self, d, sc, prog_mode, of, use_stdin):
        """one run with -o naming a destination of kind `of`.  returns None (timeout / not applicable here) or
        dict(rc, out, err, argv, must_fail, limit, dest bytes afterwards, untouched = bytes that must still be there)"""
        wd = tempfile.mkdtemp(prefix="w", dir=d)
        try:
            args = [JQAWK]
            for sel in sc.selectors:
                args += ["-r", sel]
            pre, must_fail, limit, keep, destfile = None, True, None, None, None
            if of == "full":
                try:
                    if not stat.S_ISCHR(os.stat("/dev/full").st_mode):
                        return None
                except OSError:
                    return None
                dest = "/dev/full"
            elif of in ("fsize0", "fsize-short"):
                limit = 0 if of == "fsize0" else 3 + len(sc.prog) % 9
                pre, dest, destfile = _fsize_limit(limit), "out.json", "out.json"
            elif of == "missingdir":
                dest = "nodir/sub/out.json"
            elif of == "notdir":
                with open(os.path.join(wd, "plain"), "wb") as f:
                    f.write(STALE)
                dest, keep = "plain/out.json", "plain"
            elif of == "isdir":
                os.mkdir(os.path.join(wd, "odir"))
                dest = "odir"
            elif of == "dotdir":
                dest = "./"
            elif of == "readonly":
                with open(os.path.join(wd, "out.json"), "wb") as f:
                    f.write(STALE)
                os.chmod(os.path.join(wd, "out.json"), 0o444)
                dest, destfile = "out.json", "out.json"
                must_fail = not os.access(os.path.join(wd, "out.json"), os.W_OK)
                keep = "out.json" if must_fail else None
            elif of == "rodir":
                os.mkdir(os.path.join(wd, "rod"))
                os.chmod(os.path.join(wd, "rod"), 0o555)
                dest, destfile = "rod/out.json", "rod/out.json"
                must_fail = not os.access(os.path.join(wd, "rod"), os.W_OK)
            args += ["-o", dest]
            if prog_mode == "file":
                with open(os.path.join(wd, "prog.jqawk"), "wb") as f:
                    f.write(sc.prog.encode("utf-8", "surrogateescape"))
                args += ["-f", "prog.jqawk"]
            else:
                args.append(sc.prog)
            stdin_bytes = b""
            if use_stdin:
                stdin_bytes = sc.files[0][1].encode("utf-8", "surrogateescape")
            else:
                for name, text in sc.files:
                    fp = os.path.join(wd, name)
                    os.makedirs(os.path.dirname(fp), exist_ok=True)
                    with open(fp, "wb") as f:
                        f.write(text.encode("utf-8", "surrogateescape"))
                    args.append(name)
            try:
                p = subprocess.run(args, cwd=wd, input=stdin_bytes, stdout=subprocess.PIPE, stderr=subprocess.PIPE, timeout=6, preexec_fn=pre)
            except subprocess.TimeoutExpired:
                return None
            r = {"rc": p.returncode, "out": p.stdout, "err": p.stderr, "argv": args[1:], "must_fail": must_fail, "limit": limit, "ofile": None,
                 "kept": None, "dest": None}
            if keep:
                try:
                    r["kept"] = open(os.path.join(wd, keep), "rb").read() == STALE
                except OSError:
                    r["kept"] = False
            if destfile and os.path.isfile(os.path.join(wd, destfile)):
                r["dest"] = open(os.path.join(wd, destfile), "rb").read()
            return r
        finally:
            if os.path.isdir(os.path.join(wd, "rod")):
                os.chmod(os.path.join(wd, "rod"), 0o755)
            shutil.rmtree(wd, ignore_errors=True)

    def ofault_checks(self, d, sc, impl):
        """-o to every kind of failing destination: a run whose document cannot be written must end non-zero with a diagnostic, after
        the program's own output; a run that fails earlier (or has several inputs) fails the same way as without the fault"""
        out = []
        stats = {"runs": 0, "timeouts": 0}
        bad = ("timeout", "noresult", "crash", "badcase", "panic", "raw")
        n = len(sc.files)
        variants = [("file", False)] + ([("inline", False)] if safe_inline(sc.prog) and int(sc.id[1:]) % 3 == 0 else [])
        if n == 1:
            variants.append(("file" if int(sc.id[1:]) % 2 else ("inline" if safe_inline(sc.prog) else "file"), True))
        for pm, use_stdin in variants:
            lib = RunRes(impl.get(sc.id + ("S" if use_stdin else "F"), []))
            if lib.outcome in bad:
                continue
            for of in OFAULTS:
                r = self.run_ofault(d, sc, pm, of, use_stdin)
                stats["runs"] += 1
                if r is None:
                    stats["timeouts"] += 0 if of == "full" else 1
                    continue
                why = None
                what = "-o to %s" % {"full": "/dev/full (every write fails: no space left)", "fsize0": "a file that cannot grow (file size limit 0)",
                                      "fsize-short": "a file limited to %s bytes" % r["limit"], "missingdir": "a path in a missing directory",
                                      "notdir": "a path below a regular file", "isdir": "a directory", "dotdir": "the current directory",
                                      "readonly": "an existing read-only file", "rodir": "a file in a read-only directory"}[of]
                plain = lib.outcome == "ok" and n == 1 and lib.json not in ("!", "P", "~", "?")
                payload = unhx(lib.json) if plain else b""
                fails = r["must_fail"] and not (r["limit"] is not None and len(payload) <= r["limit"])
                if plain and fails:
                    stats["ofault"] = stats.get("ofault", 0) + 1
                if b"goroutine " in r["err"] or b"panic:" in r["err"]:
                    why = "crash trace on stderr"
                elif plain and fails:
                    if r["rc"] == 0:
                        why = "the document cannot be written, but the exit status is 0 (stderr %r)" % clip(r["err"])
                    elif not r["err"].strip():
                        why = "the document cannot be written: exit status %d but no diagnostic on stderr" % r["rc"]
                    elif r["out"] != lib.stdout:
                        why = "the document cannot be written: stdout %r, the program's own output is %r" % (clip(r["out"]), clip(lib.stdout))
                    elif r["kept"] is False:
                        why = "the file in the way of the -o path was changed"
                    elif r["limit"] is not None and r["dest"] is not None and not payload.startswith(r["dest"]):
                        why = "the cut-short -o file holds %r, which is not a prefix of the document %r" % (clip(r["dest"]), clip(payload))
                elif plain:
                    # the destination can take the document after all (root writes through permissions; the document fits the limit)
                    if r["rc"] != 0 or r["out"] != lib.stdout or r["dest"] != payload:
                        why = "writable after all, but exit %d, stdout %r, file %r (document %r)" % (r["rc"], clip(r["out"]), clip(r["dest"]), clip(payload))
                else:
                    probe = dict(r, ofile=None if r["dest"] in (None, STALE, b"") else r["dest"])
                    why = self.judge(lib, probe, "path", n)
                if why:
                    out.append(({"argv": r["argv"], "stdin": use_stdin, "output_fault": of}, what + ": " + why))
        return out, stats

    def rel_checks(self, d, sc, bf, impl):
        out = []
        stats = {"runs": 0, "timeouts": 0}
        a, b = RunRes(impl.get(sc.id + "R", [])), RunRes(impl.get(sc.id + "B", []))
        bad = ("timeout", "noresult", "crash", "badcase", "panic", "raw")
        if a.outcome in bad or b.outcome in bad:
            return out, stats
        if (a.outcome, a.stdout, a.json) != (b.outcome, b.stdout, b.json):
            out.append(({"beginfile_form": bf}, "library: -r E gives %s %r json=%s, BEGINFILE { $ = E } gives %s %r json=%s"
                        % (a.outcome, clip(a.stdout), jtext(a.json), b.outcome, clip(b.stdout), jtext(b.json))))
            return out, stats
        om = "dash" if len(sc.files) == 1 else "none"
        r1 = self.run_bin(d, sc.prog, "file", sc.files, sc.selectors, om)
        r2 = self.run_bin(d, bf, "file", sc.files, [], om)
        stats["runs"] += 2
        if r1 is None or r2 is None:
            stats["timeouts"] += 1
            return out, stats
        if (r1["rc"] == 0) != (r2["rc"] == 0) or r1["out"] != r2["out"]:
            out.append(({"argv": r1["argv"], "argv2": r2["argv"], "beginfile_form": bf},
                        "binary: -r E gives exit %d %r, BEGINFILE { $ = E } gives exit %d %r" % (r1["rc"], clip(r1["out"]), r2["rc"], clip(r2["out"]))))
        for r in (r1,):
            why = self.judge(a, r, om, len(sc.files))
            if why:
                out.append(({"argv": r["argv"]}, why))
        return out, stats

    def extra(self, ctx):
        impl = ctx["impl"]
        viol = []
        stats = {"binary_runs": 0, "binary_timeouts": 0}
        d = tempfile.mkdtemp(prefix="c14-", dir=BUILD)
        try:
            with ThreadPoolExecutor(max_workers=8) as ex:
                jobs = [(sc, None, ex.submit(self.scenario_checks, d, sc, impl)) for sc in getattr(self, "scenarios", [])]
                jobs += [(sc, bf, ex.submit(self.rel_checks, d, sc, bf, impl)) for sc, bf in getattr(self, "rels", [])]
                jobs += [(sc, None, ex.submit(self.ofault_checks, d, sc, impl)) for sc in getattr(self, "oscen", [])]
                for sc, bf, fut in jobs:
                    found, st = fut.result()
                    stats["binary_runs"] += st["runs"]
                    stats["binary_timeouts"] += st["timeouts"]
                    stats["runs_whose_output_destination_fails"] = stats.get("runs_whose_output_destination_fails", 0) + st.get("ofault", 0)
                    for extra_meta, why in found[:2]:
                        viol.append((Case(sc.id + "!", None, sc.meta(**extra_meta), True), why))
        finally:
            shutil.rmtree(d, ignore_errors=True)
        return viol, stats


def jtext(field):
    return field if field in ("!", "P", "~", "?") else clip(unhx(field))


def clip(b, n=140):
    if b is None:
        return "(none)"
    if isinstance(b, bytes):
        b = b.decode("utf-8", "replace")
    return b if len(b) <= n else b[:n - 3] + "..."


CHECK = C14()
