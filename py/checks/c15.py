"""C15: array methods behave like an ideal list under every sequence of operations."""
from framework import Check, Case
from jqlib import simple_run
import pyref
from pyref import UNSET, RuntimeErr
import valgen as V


class Reject(Exception):
    """the step would make the run depend on slice aliasing (F-C09-alias, C09's business): regenerate"""


class Unspecified(Exception):
    """a call outside the documented signatures (argument count): only 'no crash' is asserted from here on"""


# ---------------------------------------------------------------- the ideal list machine

class Ideal:
    """State: holder name -> Python list (reference semantics, as the property's ideal list).
    Expressions: ("lit", v) | ("idx", name, i) | ("call", name, method, [args])."""

    def __init__(self, arrays):
        self.arr = arrays
        self.frozen = set()         # names whose list was stored into another list during this step

    def names_inside(self, v, acc=None):
        acc = set() if acc is None else acc
        for n, l in self.arr.items():
            if v is l:
                acc.add(n)
        if isinstance(v, list):
            for x in v:
                self.names_inside(x, acc)
        elif isinstance(v, dict):
            for x in v.values():
                self.names_inside(x, acc)
        return acc

    def will_resize(self, name):
        if name in self.frozen:
            raise Reject()

    def store_into(self, name, v):
        inside = self.names_inside(v)
        if name in inside:
            raise Reject()          # a list inside itself: C17's business, and depends on slice growth
        self.frozen |= inside

    def index(self, name, i):
        lst = self.arr[name]
        if i < 0:
            i += len(lst)
            if i < 0:
                raise RuntimeErr("index before the start")
        return i

    def eval(self, e):
        if e[0] == "lit":
            return V.clone(e[1])
        if e[0] == "idx":
            lst = self.arr[e[1]]
            i = self.index(e[1], e[2])
            return lst[i] if i < len(lst) else None
        _, name, m, args = e
        lst = self.arr[name]
        vals = [self.eval(a) for a in args]
        want = {"push": 1, "contains": 1, "pop": 0, "popfirst": 0}.get(m)
        if len(vals) != (0 if want is None else want):
            raise Unspecified()
        if m == "length":
            return float(len(lst))
        if m == "push":
            self.will_resize(name)
            self.store_into(name, vals[0])
            lst.append(vals[0])
            return lst
        if m == "pop":
            if not lst:
                return None
            self.will_resize(name)
            return lst.pop()
        if m == "popfirst":
            if not lst:
                return None
            self.will_resize(name)
            return lst.pop(0)
        if m == "contains":
            for item in lst:
                if pyref.binop("==", vals[0], item):
                    return True
            return False
        if m == "sort":
            if all(pyref.kind(x) == "num" for x in lst):
                return sorted(lst, key=float)
            return sorted(lst, key=lambda x: pyref.strform(x).encode() if x is not UNSET else b"")
        raise ValueError(m)

    def write(self, name, i, e):
        lst = self.arr[name]
        i = self.index(name, i)                 # the target is resolved first
        v = self.eval(e)
        if self.names_inside(v):
            raise Reject()
        if i >= len(lst):
            self.will_resize(name)
            lst.extend([None] * (i + 1 - len(lst)))
        lst[i] = v


def src(e):
    if e[0] == "lit":
        return pyref.literal(e[1])
    if e[0] == "idx":
        return "%s[%d]" % (e[1], e[2])
    return "%s.%s(%s)" % (e[1], e[2], ", ".join(src(a) for a in e[3]))


def depth_of(e):
    if e[0] != "call":
        return 0
    return 1 + max([depth_of(a) for a in e[3]] + [0])



# ---------------------------------------------------------------- generator

HOLDERS = {
    "a": lambda lit: "a = %s" % lit,
    "b": lambda lit: "b = %s" % lit,
    "$.list": None,
    "$.box.list": None,
    "o.items": lambda lit: "o = {items: %s}" % lit,
    "p.inner.items": lambda lit: "p = {inner: {items: %s}, items: [0]}" % lit,
    "t[1]": lambda lit: "t = [null, %s, 7]" % lit,
}
METHODS = ["push"] * 6 + ["pop"] * 3 + ["popfirst"] * 3 + ["length"] * 2 + ["contains"] * 4 + ["sort"] * 3


class Gen:
    def __init__(self, rng, names):
        self.r = rng
        self.names = names

    def lit(self, containers=0.25):
        return ("lit", V.value(self.r, 2, True, containers))

    def arg(self, d, lens):
        k = self.r.random()
        if d > 0 and k < 0.55:
            return self.call(d, lens)
        if d > 0 and k < 0.65:
            return self.idx(lens)
        return self.lit()

    def idx(self, lens, name=None):
        name = name or self.r.choice(self.names)
        n = lens.get(name, 0)
        return ("idx", name, self.r.randint(-n - 1 if self.r.random() < 0.1 else -n, n + 2))

    def call(self, d, lens, malformed=False):
        name = self.r.choice(self.names)
        m = self.r.choice(METHODS)
        nargs = 1 if m in ("push", "contains") else 0
        if malformed:
            nargs = self.r.choice([x for x in (0, 1, 2, 3) if x != nargs])
        return ("call", name, m, [self.arg(d - 1, lens) for _ in range(nargs)])

    def step(self, lens):
        k = self.r.random()
        if k < 0.004:
            return {"k": "expr", "e": self.call(2, lens, malformed=True)}
        if k < 0.03:
            # the holder gets a new array (a literal, or its own sorted copy): later calls must act on the new one
            name = self.r.choice(self.names)
            if self.r.random() < 0.5:
                e = ("call", name, "sort", [])
            else:
                e = ("lit", [V.value(self.r, 1, True, 0.15) for _ in range(self.r.randint(0, 4))])
            return {"k": "rebind", "name": name, "e": e}
        if k < 0.70:
            d = self.r.choice([1, 1, 2, 2, 3])
            return {"k": "expr", "e": self.call(d, lens)}
        if k < 0.80:
            return {"k": "expr", "e": self.idx(lens)}
        name = self.r.choice(self.names)
        n = lens.get(name, 0)
        i = self.r.randint(-n - 1 if self.r.random() < 0.08 else -n, n + 3)
        others = [x for x in self.names if x != name]
        if others and self.r.random() < 0.3:
            g = Gen(self.r, others)
            e = g.call(self.r.choice([1, 2]), lens)
        else:
            e = self.lit()
        return {"k": "write", "name": name, "i": i, "e": e}


def build_case(rng, cid, nsteps, names):
    init = {}
    for n in names:
        doc = HOLDERS[n] is None
        init[n] = [V.value(rng, 2, not doc, 0.2) for _ in range(rng.choice([0, 0, 1, 2, 3, 4]))]
        if rng.random() < 0.06:
            # long enough for the merging phase of a stable sort, many equal keys that print differently
            pool = [1.0, "1", True, False, None, 0.0, -0.0, "0", "", "a", 10.0, "10", 9.0] if rng.random() < 0.7 else [0.0, -0.0, 1.0, 2.0]
            init[n] = [rng.choice(pool) for _ in range(rng.randint(13, 30))]
    state = Ideal({n: V.clone(init[n]) for n in names})
    g = Gen(rng, names)

    prog = []
    for n in names:
        if HOLDERS[n]:
            prog.append(HOLDERS[n](pyref.literal(init[n])))
    docv = {"list": init.get("$.list", ["other"]), "box": {"list": init.get("$.box.list", [])}, "n": 1}

    def state_src(k):
        return 'print "s%d", %s' % (k, ", ".join("%s, %s.length()" % (n, n) for n in names))

    def state_out(k):
        return "s%d " % k + " ".join("%s %s" % (pyref.pretty(state.arr[n]), pyref.fmt_f(float(len(state.arr[n])))) for n in names)

    out = [state_out(0)]
    prog.append(state_src(0))
    expect = "ok"
    removed = set()
    nontrivial = False
    k = 0
    pending = []            # clean-up pops that restore alias-freedom
    history = []
    while k < nsteps or pending:
        k += 1
        lens = {n: len(l) for n, l in state.arr.items()}
        final = None
        for attempt in range(40):
            st = pending[0] if pending else g.step(lens)
            trial = Ideal(V.clone(state.arr))
            try:
                if st["k"] == "expr":
                    res = trial.eval(st["e"])
                    line = "r%d %s" % (k, pyref.pretty(res))
                elif st["k"] == "rebind":
                    trial.arr[st["name"]] = trial.eval(st["e"])
                    line = "w%d" % k
                else:
                    trial.write(st["name"], st["i"], st["e"])
                    line = "w%d" % k
                final = ("ok", st, trial, line)
                break
            except Reject:
                continue
            except RuntimeErr:
                if rng.random() < 0.04 or attempt == 39:
                    final = ("runtime", st, None, None)
                    break
            except Unspecified:
                final = ("any", st, None, None)
                break
        if final is None:
            break
        verdict, st, trial, line = final
        if pending:
            pending.pop(0)
        if st["k"] == "expr":
            text = src(st["e"])
            prog.append('print "r%d", %s' % (k, text))
        else:
            text = ("%s = %s" % (st["name"], src(st["e"])) if st["k"] == "rebind"
                    else "%s[%d] = %s" % (st["name"], st["i"], src(st["e"])))
            prog.append(text)
            prog.append('print "w%d"' % k)
        history.append(text)
        if verdict != "ok":
            expect = verdict
            break
        # non-triviality: a removal followed by an insertion on the same array, or a nested call
        e = st["e"]
        if depth_of(e) >= 2:
            nontrivial = True
        for n in names:
            if n in removed and (len(trial.arr[n]) > lens[n] or _calls(e, n, ("push",))):
                nontrivial = True
        for n in names:
            if len(trial.arr[n]) < lens[n] or _calls(e, n, ("pop", "popfirst")):
                removed.add(n)
        state = Ideal(trial.arr)
        out.append(line)
        prog.append(state_src(k))
        out.append(state_out(k))
        # alias-freedom: a named list stored inside a named list is removed again before anything else happens
        if not pending:
            pending = cleanup_plan(state)
    text = "{\n " + "\n ".join(prog) + "\n}"
    stdout = "".join(l + "\n" for l in out)
    meta = {"prog": text, "doc": V.to_json(docv), "history": history, "arrays": names,
            "expect_outcome": expect, "expect_stdout": stdout}
    return Case(cid, simple_run(cid, text, [V.to_json(docv)]), meta, nontrivial)


def build_bulk(rng, cid, big=False):
    """loops that grow an array past the sizes where storage strategies change (12/13, 32, 256, 1024), drain it from the
    front, refill, pop, write past the end; lengths, ends, the whole array, its sort and contains are printed"""
    holder = rng.choice(["a", "$.list", "o.items", "t[1]"])
    # (the extracted model needs seconds per case beyond a few hundred elements: the largest sizes are rare)
    n = rng.choice([513, 1000, 1024, 1025]) if big else rng.choice([12, 13, 16, 17, 31, 32, 33, 64, 65, 128, 129, 255, 256, 257, 300])
    k = rng.choice([0, 1, n // 2, n - 1, n, rng.randint(0, n)])
    m = rng.randint(0, 40)
    p = rng.randint(0, 12)
    mixed = rng.random() < 0.5
    h = holder
    init = {"a": "a = []", "$.list": "", "o.items": "o = {items: []}", "t[1]": "t = [null, [], 7]"}[holder]
    lst = []
    out = []
    sim = Ideal({h: lst})
    fmt = lambda v: pyref.pretty(v)
    for i in range(n):
        lst.append(float((i * 7) % 13))
    mid = n // 2
    out.append("n %s %s %s %s" % (fmt(float(len(lst))), fmt(lst[0]), fmt(lst[-1]), fmt(lst[mid])))
    ssum = 0.0
    for i in range(k):
        ssum += lst.pop(0)
    out.append("k %s %s %s" % (fmt(float(len(lst))), fmt(ssum), fmt(lst[0] if lst else None)))      # [-1] of an empty array is an error
    for i in range(m):
        lst.append("s" + pyref.fmt_f(float(i)) if mixed else float(i * 3))
    last = None
    for i in range(p):
        last = lst.pop() if lst else None
    gap = rng.choice([0, 1, 3])
    lst.extend([None] * gap)
    lst.append(True if mixed else 2.5)
    out.append("m %s %s %s" % (fmt(float(len(lst))), pyref.pretty(last) if p else "<unknown>", pyref.pretty(lst)))
    out.append("sort %s" % pyref.pretty(sim.eval(("call", h, "sort", []))))
    probes = [5.0, "s3", 12.0, None, 2.5, "0"]
    out.append("c " + " ".join(fmt(sim.eval(("call", h, "contains", [("lit", x)]))) for x in probes))
    out.append("after %s %s %s" % (fmt(float(len(lst))), fmt(lst[0]), fmt(lst[-1])))
    prog = ["{", " " + init,
            " for (i = 0; i < %d; i++) { %s.push(i * 7 %% 13) }" % (n, h),
            ' print "n", %s.length(), %s[0], %s[-1], %s[%d]' % (h, h, h, h, mid),
            " sum = 0", " for (i = 0; i < %d; i++) { sum += %s.popfirst() }" % (k, h),
            ' print "k", %s.length(), sum, %s[0]' % (h, h),
            " for (i = 0; i < %d; i++) { %s.push(%s) }" % (m, h, '"s" + i' if mixed else "i * 3"),
            " for (i = 0; i < %d; i++) { last = %s.pop() }" % (p, h),
            " %s[%s.length() + %d] = %s" % (h, h, gap, "true" if mixed else "2.5"),
            ' print "m", %s.length(), last, %s' % (h, h),
            ' print "sort", %s.sort()' % h,
            ' print "c", %s' % ", ".join("%s.contains(%s)" % (h, pyref.literal(x)) for x in probes),
            ' print "after", %s.length(), %s[0], %s[-1]' % (h, h, h), "}"]
    text = "\n".join(prog)
    doc = '{"list": [], "n": 1}'
    meta = {"prog": text, "doc": doc, "history": ["bulk n=%d popfirst=%d push=%d pop=%d" % (n, k, m, p)], "arrays": [h],
            "expect_outcome": "ok", "expect_stdout": "".join(l + "\n" for l in out)}
    return Case(cid, simple_run(cid, text, [doc]), meta, True, ["bulk"])


# ---------------------------------------------------------------- the same call site re-entered inside its own argument
# A recursive function whose body calls a method with the recursive call as the argument: while the argument is being
# evaluated the very same call site runs again (with another receiver) one level down.  The receiver of every level must
# be the array that was evaluated before its arguments.  Python mirrors of the functions give the ideal result.

def _tree(rng, depth, top=True):
    n = rng.randint(1 if top else 0, 4)
    out = []
    for _ in range(n):
        if depth > 0 and rng.random() < (0.55 if top else 0.4):
            out.append(_tree(rng, depth - 1, False))
        else:
            out.append(V.scalar(rng, False))
    if top and not any(isinstance(x, list) for x in out):
        out.insert(rng.randrange(len(out) + 1), _tree(rng, max(depth - 1, 0), False))
    return out


def _contains(lst, v):
    return any(pyref.binop("==", v, item) for item in lst)


def build_reentrant(rng, cid):
    kind = rng.choice(["dup", "dup", "dup-seed", "chain", "chain-stmt", "contains", "contains-mix", "mutual", "member", "fan", "push-contains"])
    doc = {"n": 1}
    lines = []          # expected output lines
    if kind in ("dup", "dup-seed", "member"):
        t = _tree(rng, rng.choice([1, 2, 3, 4]))
        via_doc = rng.random() < 0.5
        src_t = "$.t" if via_doc else pyref.literal(t)
        if via_doc:
            doc["t"] = t
        if kind == "dup":
            fn = ("function dup(t, out) { for (c in t) { if (c is array) { out.push(dup(c, [])) } else { out.push(c) } } return out }"
                  if rng.random() < 0.5 else
                  "function dup(t, out) {\n for (i = 0; i < t.length(); i++) {\n if (t[i] is array) out.push(dup(t[i], [])) else out.push(t[i])\n }\n return out\n}")
            if "i = 0" in fn:
                # the loop counter is not a parameter: keep it in one
                fn = ("function dup(t, out, i) {\n for (i = 0; i < t.length(); i++) {\n if (t[i] is array) { out.push(dup(t[i], [], 0)) } else { out.push(t[i]) }\n }\n return out\n}")
                call = "dup(%s, [], 0)" % src_t
            else:
                call = "dup(%s, [])" % src_t
            want = t
        elif kind == "dup-seed":
            fn = "function dup(t, out, d) { for (c in t) { if (c is array) { out.push(dup(c, [\"d\" + d], d + 1)) } else { out.push(c) } } return out }"
            call = "dup(%s, [\"top\"], 1)" % src_t

            def mirror(t, out, d):
                for c in t:
                    out.append(mirror(c, ["d" + pyref.fmt_f(float(d))], d + 1) if isinstance(c, list) else c)
                return out
            want = mirror(t, ["top"], 1)
        else:
            fn = ("function walk(t, o) { for (c in t) { if (c is array) { o.items.push(walk(c, {items: [], tag: 1}).items) } else { o.items.push(c) } } return o }")
            call = "walk(%s, {items: []}).items" % src_t
            want = t
        prog = fn + "\n{ print \"r\", %s\n print \"t\", %s }" % (call, src_t)
        lines = ["r " + pyref.pretty(want), "t " + pyref.pretty(t)]
        hist = "%s over %s" % (kind, pyref.pretty(t))
    elif kind in ("chain", "chain-stmt", "mutual", "fan"):
        n = rng.randint(1, 6) if kind != "fan" else rng.randint(2, 6)
        k = rng.choice([10.0, 1.0, -1.0, 0.5])
        top = [V.scalar(rng, False) for _ in range(rng.randint(0, 2))]
        ks = pyref.literal(float(k))
        if kind == "chain":
            fn = "function chain(n, out) { if (n == 0) { return out } return out.push(chain(n - 1, [n * %s])) }" % ks
            call = "chain(%d, %s)" % (n, pyref.literal(top))

            def mirror(n, out):
                if n == 0:
                    return out
                out.append(mirror(n - 1, [float(n) * k]))
                return out
            want = mirror(n, V.clone(top))
        elif kind == "chain-stmt":
            fn = "function chain(n, out) { if (n > 0) { out.push(chain(n - 1, [n * %s, n])) } out.push(\"end\" + n) return out }" % ks
            fn = fn.replace(" } out.push", " }\n out.push").replace(") return out", ")\n return out")
            call = "chain(%d, %s)" % (n, pyref.literal(top))

            def mirror(n, out):
                if n > 0:
                    out.append(mirror(n - 1, [float(n) * k, float(n)]))
                out.append("end" + pyref.fmt_f(float(n)))
                return out
            want = mirror(n, V.clone(top))
        elif kind == "mutual":
            fn = ("function f(n, a) { if (n == 0) { return a }\n a.push(g(n - 1))\n return a }\n"
                  "function g(n) { return f(n, [n * %s]) }" % ks)
            call = "f(%d, %s)" % (n, pyref.literal(top))

            def mf(n, a):
                if n == 0:
                    return a
                a.append(mf(n - 1, [float(n - 1) * k]))
                return a
            want = mf(n, V.clone(top))
        else:
            fn = ("function tree(n, out) { if (n > 0) { out.push(tree(n - 1, [n]))\n out.push(tree(n - 2, [n, n])) }\n return out }")
            call = "tree(%d, %s)" % (n, pyref.literal(top))

            def mirror(n, out):
                if n > 0:
                    out.append(mirror(n - 1, [float(n)]))
                    out.append(mirror(n - 2, [float(n), float(n)]))
                return out
            want = mirror(n, V.clone(top))
        prog = fn + "\nBEGIN { print \"r\", %s }" % call
        lines = ["r " + pyref.pretty(want)]
        hist = "%s n=%d" % (kind, n)
    else:
        n = rng.randint(1, 6)
        pool = [0.0, 1.0, 2.0, 3.0, True, False, "1", "0", "true", "", None, 5.0]
        L = [[rng.choice(pool) for _ in range(rng.randint(0, 4))] for _ in range(n + 1)]
        Ls = pyref.literal(L)
        if kind == "contains":
            fn = "function has(n, a, L) { if (n == 0) { return a.length() } return a.contains(has(n - 1, L[n - 1], L)) }"

            def mirror(n, a):
                if n == 0:
                    return float(len(a))
                return _contains(a, mirror(n - 1, L[n - 1]))
            want = [mirror(i, L[i]) for i in range(n + 1)]
            prog = fn + "\nBEGIN { L = %s\n %s }" % (Ls, "\n ".join("print \"r%d\", has(%d, L[%d], L)" % (i, i, i) for i in range(n + 1)))
            lines = ["r%d %s" % (i, pyref.pretty(w)) for i, w in enumerate(want)]
        elif kind == "contains-mix":
            fn = ("function mix(n, a, L) { if (n == 0) { return 0 }\n if (a.contains(mix(n - 1, L[n - 1], L))) { return a.length() }\n return a.contains(n) }")

            def mirror(n, a):
                if n == 0:
                    return 0.0
                if _contains(a, mirror(n - 1, L[n - 1])):
                    return float(len(a))
                return _contains(a, float(n))
            want = [mirror(i, L[i]) for i in range(n + 1)]
            prog = fn + "\nBEGIN { L = %s\n %s }" % (Ls, "\n ".join("print \"r%d\", mix(%d, L[%d], L)" % (i, i, i) for i in range(n + 1)))
            lines = ["r%d %s" % (i, pyref.pretty(w)) for i, w in enumerate(want)]
        else:
            # contains decides what is pushed; the array is the function's own literal copy
            fn = ("function pc(n, a, L) { if (n == 0) { return a }\n a.push(a.contains(pc(n - 1, [n - 1, L[n - 1].length()], L).length()))\n return a }")

            def mirror(n, a):
                if n == 0:
                    return a
                inner = mirror(n - 1, [float(n - 1), float(len(L[n - 1]))])
                a.append(_contains(a, float(len(inner))))
                return a
            want = mirror(n, [1.0, 2.0, 3.0])
            prog = fn + "\nBEGIN { L = %s\n print \"r\", pc(%d, [1, 2, 3], L) }" % (Ls, n)
            lines = ["r " + pyref.pretty(want)]
        hist = "%s n=%d L=%s" % (kind, n, Ls)
    docj = V.to_json(doc)
    meta = {"prog": prog, "doc": docj, "history": [hist], "arrays": ["(parameters of a recursive function)"],
            "expect_outcome": "ok", "expect_stdout": "".join(l + "\n" for l in lines)}
    return Case(cid, simple_run(cid, prog, [docj]), meta, True, ["reentrant", kind])


# ---------------------------------------------------------------- contains(v) agrees with ==, for special values
# "contains(v) agrees with == applied to each element in order": elements and needles that no JSON document can spell
# (NaN computed several ways, both infinities, -0), numeric strings of every shape, booleans next to 0/1, null next to
# unset.  Every query prints `a[i] == v` for every i next to `a.contains(v)`: the last word must be the OR of the others
# (the implementation judged against itself), and every word must be what the documented == says (Python reference).
import math

SPECIAL_VALUES = [
    ('+"NaN"', math.nan), ('("Inf" - "Inf")', math.nan), ('(0 * +"Inf")', math.nan), ('num("nan")', math.nan),
    ('(("1e308" * 10) - ("1e308" * 10))', math.nan),
    ('+"Inf"', math.inf), ('("1e308" * 10)', math.inf), ('num("inf")', math.inf),
    ('(0 - +"Inf")', -math.inf), ('("-1e308" * 10)', -math.inf), ('num("-Inf")', -math.inf),
    ('(0 * (0 - 1))', -0.0), ('+"-0"', -0.0), ('0', 0.0), ('(0 - 0)', 0.0),
    ('1', 1.0), ('2', 2.0), ('0.5', 0.5), ('10', 10.0), ('(0 - 1)', -1.0), ('(0.1 + 0.2)', 0.1 + 0.2), ('0.3', 0.3),
    ('"1"', "1"), ('"1.0"', "1.0"), ('" 1"', " 1"), ('"1e0"', "1e0"), ('"+1"', "+1"), ('"0"', "0"), ('"-0"', "-0"), ('"00"', "00"),
    ('"0.0"', "0.0"), ('".5"', ".5"), ('"0.5"', "0.5"), ('"10"', "10"), ('"2"', "2"), ('""', ""), ('" "', " "), ('"abc"', "abc"),
    ('"NaN"', "NaN"), ('"nan"', "nan"), ('"Inf"', "Inf"), ('"inf"', "inf"), ('"+Inf"', "+Inf"), ('"-Inf"', "-Inf"), ('"Infinity"', "Infinity"),
    ('"true"', "true"), ('"false"', "false"), ('"null"', "null"), ('"0.30000000000000004"', "0.30000000000000004"),
    ('true', True), ('false', False), ('null', None), ('unset_var', UNSET),
]
_NUMERIC = [sv for sv in SPECIAL_VALUES if isinstance(sv[1], float)]
_NANS = [sv for sv in SPECIAL_VALUES if isinstance(sv[1], float) and sv[1] != sv[1]]
_JSONABLE = [sv for sv in SPECIAL_VALUES if sv[1] is not UNSET and not (isinstance(sv[1], float) and (sv[1] != sv[1] or math.isinf(sv[1]) or (sv[1] == 0 and math.copysign(1, sv[1]) < 0)))
             and not sv[0].startswith(("(", "+", "num"))]


def build_special(rng, cid):
    style = rng.choice(["numbers", "numbers", "mixed", "mixed", "mixed", "with-nan"])
    pool = _NUMERIC if style == "numbers" else SPECIAL_VALUES
    n = rng.choice([0, 1, 1, 2, 3, 4, 5, 6])
    elems = [rng.choice(pool) for _ in range(n)]
    if style == "with-nan" and elems:
        elems[rng.randrange(len(elems))] = rng.choice(_NANS)
    holder = rng.choice(["a", "a", "o.items", "t[1]", "$.list", "pushed"])
    lines, doc = [], '{"n": 1}'
    h = holder
    esrc = ", ".join(e[0] for e in elems)
    if holder == "a":
        lines.append(" a = [%s]" % esrc)
    elif holder == "o.items":
        lines.append(" o = {items: [%s]}" % esrc)
    elif holder == "t[1]":
        lines.append(" t = [null, [%s], 7]" % esrc)
    elif holder == "pushed":
        h = "a"
        lines.append(" a = []")
        for e in elems:
            lines.append(" a.push(%s)" % e[0])
    else:
        # the head of the list comes from the document, the rest is pushed
        k = rng.randint(0, n)
        for i in range(k):
            elems[i] = rng.choice(_JSONABLE)
        doc = V.to_json({"list": [e[1] for e in elems[:k]], "n": 1})
        for e in elems[k:]:
            lines.append(" $.list.push(%s)" % e[0])
    vals = [e[1] for e in elems]
    needles = [rng.choice(SPECIAL_VALUES) for _ in range(rng.randint(4, 9))]
    needles[rng.randrange(len(needles))] = rng.choice(_NANS)
    if elems and rng.random() < 0.6:
        needles[rng.randrange(len(needles))] = rng.choice(elems)
    lines.append(' print "a", %s, %s.length()' % (h, h))
    out = ["a %s %s" % (pyref.pretty(vals), pyref.fmt_f(float(len(vals))))]
    queries = []
    for q, (nsrc, nval) in enumerate(needles):
        direct = rng.random() < 0.4 and nsrc != "unset_var"
        if direct:
            vs = nsrc
        else:
            lines.append(" v = %s" % nsrc if nsrc != "unset_var" else " v = unset_var")
            vs = "v"
        eqs = ["%s[%d] == %s" % (h, i, vs) if rng.random() < 0.7 else "%s == %s[%d]" % (vs, h, i) for i in range(n)]
        lines.append(' print %s' % ", ".join(['"q%d"' % q] + eqs + ['"|"', "%s.contains(%s)" % (h, vs)]))
        want = [pyref.binop("==", x, nval) for x in vals]
        out.append(" ".join(["q%d" % q] + [pyref.pretty(w) for w in want] + ["|", pyref.pretty(any(want))]))
        queries.append(nsrc)
    lines.append(' print "z", %s' % h)
    out.append("z " + pyref.pretty(vals))
    if holder == "$.list":
        prog = "{\n" + "\n".join(lines) + "\n}"
    else:
        prog = "BEGIN {\n" + "\n".join(lines) + "\n}"
    meta = {"prog": prog, "doc": doc, "history": ["elements [%s]" % esrc, "needles " + " ; ".join(queries)], "arrays": [h],
            "expect_outcome": "ok", "expect_stdout": "".join(l + "\n" for l in out), "agree": queries}
    return Case(cid, simple_run(cid, prog, [doc]), meta, any(isinstance(x, float) and x != x for x in vals + [nd[1] for nd in needles]),
                ["special"])


# ---------------------------------------------------------------- extreme indices after every length-changing operation
# "a[-k] addresses the k-th element from the end and an index before the start is an error": indices at and around
# +-2^63, +-2^62, +-2^32, +-2^31, 1e19, 1e300, NaN and the infinities, read / stored to / incremented on an array whose
# length has just been changed by push, pop, popfirst, a store past the end, sort or reassignment.  An index that is a real
# number below -length must be a runtime error; one above the end reads null and leaves the array alone (a store that far
# is refused); what cannot be an int64 at all (NaN, +Inf, >= 2^63) may be either -- never anything else.

EXTREME_INDEX = [
    ("9223372036854775807", 2.0 ** 63), ("9223372036854775808", 2.0 ** 63), ("9223372036854775809", 2.0 ** 63), ("9223372036854777856", 2.0 ** 63 + 2048),
    ("-9223372036854775807", -2.0 ** 63), ("-9223372036854775808", -2.0 ** 63), ("-9223372036854775809", -2.0 ** 63), ("-9223372036854777856", -2.0 ** 63 - 2048),
    ("(0 - 9223372036854775808)", -2.0 ** 63), ("(-9223372036854775808)", -2.0 ** 63), ("-(9223372036854775808)", -2.0 ** 63),
    ("9223372036854774784", 2.0 ** 63 - 1024), ("-9223372036854774784", -2.0 ** 63 + 1024),
    ("4611686018427387904", 2.0 ** 62), ("-4611686018427387904", -2.0 ** 62), ("4611686018427387903", 2.0 ** 62), ("-4611686018427387905", -2.0 ** 62),
    ("10000000000000000000", 1e19), ("-10000000000000000000", -1e19), ("18446744073709551616", 2.0 ** 64), ("-18446744073709551616", -2.0 ** 64),
    ("18446744073709551615", 2.0 ** 64), ("-18446744073709551615", -2.0 ** 64),
    ('+"1e300"', 1e300), ('(0 - "1e300")', -1e300), ('-"1e300"', -1e300), ('("1e150" * "1e150")', 1e300),
    ('+"NaN"', math.nan), ('("Inf" - "Inf")', math.nan), ('+"Inf"', math.inf), ('(0 - +"Inf")', -math.inf), ('-"Inf"', -math.inf), ('("1e308" * 10)', math.inf),
    ("4294967296", 2.0 ** 32), ("-4294967296", -2.0 ** 32), ("4294967297", 2.0 ** 32 + 1), ("-4294967295", -2.0 ** 32 + 1), ("-4294967297", -2.0 ** 32 - 1),
    ("2147483648", 2.0 ** 31), ("-2147483648", -2.0 ** 31), ("-2147483649", -2.0 ** 31 - 1), ("2147483647", 2.0 ** 31 - 1),
    ("9007199254740993", 2.0 ** 53), ("-9007199254740993", -2.0 ** 53),
]


def build_extreme(rng, cid):
    holder = rng.choice(["a", "a", "o.items", "t[1]", "$.list", "p.inner.items"])
    h = holder
    numeric = rng.random() < 0.6
    pool = [0.0, 1.0, 2.0, 3.0, 5.0, 10.0, 2.5, -1.0] if numeric else [1.0, "a", "b", "10", 9.0, True, None, "", 2.0]
    init = [rng.choice(pool) for _ in range(rng.choice([0, 0, 1, 2, 3, 4, 5]))]
    lst = list(init)
    lines, out = [], []
    doc = '{"n": 1}'
    if HOLDERS[h]:
        lines.append(" " + HOLDERS[h](pyref.literal(init)))
    else:
        doc = V.to_json({"list": init, "box": {"list": init}, "n": 1})
    sim = Ideal({h: lst})
    hist = []
    nops = rng.choice([1, 1, 2, 2, 3, 4])
    for k in range(nops):
        op = rng.choice(["push", "push", "pop", "popfirst", "fill", "sort", "reassign"])
        if op == "push":
            x = rng.choice(pool)
            lst.append(x)
            text = "%s.push(%s)" % (h, pyref.literal(x))
        elif op == "pop":
            if lst:
                lst.pop()
            text = "%s.pop()" % h
        elif op == "popfirst":
            if lst:
                lst.pop(0)
            text = "%s.popfirst()" % h
        elif op == "fill":
            gap = rng.choice([0, 0, 1, 2, 5])
            x = rng.choice(pool)
            text = "%s[%d] = %s" % (h, len(lst) + gap, pyref.literal(x))
            lst.extend([None] * gap)
            lst.append(x)
        elif op == "sort":
            lst[:] = sim.eval(("call", h, "sort", []))
            text = "%s = %s.sort()" % (h, h)
        else:
            new = [rng.choice(pool) for _ in range(rng.choice([0, 1, 2, 3]))]
            lst[:] = new
            text = "%s = %s" % (h, pyref.literal(new))
        hist.append(text)
        lines.append(" " + text)
    lines.append(' print "s", %s, %s.length()' % (h, h))
    out.append("s %s %s" % (pyref.pretty(lst), pyref.fmt_f(float(len(lst)))))
    isrc, x = rng.choice(EXTREME_INDEX)
    if rng.random() < 0.12:
        # the exact boundaries, as controls
        k = rng.choice([-len(lst) - 1, -len(lst), -1, len(lst), len(lst) + 1]) if lst else rng.choice([-1, 0, 1])
        isrc, x = ("%d" % k, float(k))
    if rng.random() < 0.15 and x == x and not math.isinf(x):
        # the same index reached by arithmetic on the (just changed) length
        isrc, x = ("(%s.length() + %s)" % (h, isrc), float(len(lst)) + x)
    probe = rng.choice(["read", "read", "store", "store", "inc", "inc", "read-twice"])
    if probe in ("read", "read-twice"):
        ptext = 'print "r", %s[%s]' % (h, isrc) if probe == "read" else 'print "r", %s[%s], %s[%s]' % (h, isrc, h, isrc)
    elif probe == "store":
        ptext = '%s[%s] = 7' % (h, isrc)
    else:
        ptext = rng.choice(["%s[%s]++", "x = ++%s[%s]", "%s[%s] += 1", "%s[%s]--", "x = %s[%s]++"]) % (h, isrc)
    lines.append(" " + ptext)
    if not ptext.startswith("print"):
        lines.append(' print "w"')
    lines.append(' print "e", %s.length(), %s' % (h, h))
    hist.append(ptext)
    prefix = "".join(l + "\n" for l in out)
    n = len(lst)
    lenient = x != x or x >= 2.0 ** 63 or (math.isinf(x) and x > 0)
    # the documented alternatives: (outcome, stdout) the oracle accepts
    err = ("runtime", prefix)
    unchanged = "e %s %s\n" % (pyref.fmt_f(float(n)), pyref.pretty(lst))
    if probe in ("read", "read-twice"):
        beyond = ("ok", prefix + ("r null\n" if probe == "read" else "r null null\n") + unchanged)
    else:
        beyond = err            # a store that far past the end is refused (the fill limit: C20), never carried out
    if lenient:
        accept = [err, beyond]
    elif x < 0 and pyref.trunc_int64(x) + n < 0:
        accept = [err]
    else:
        i = pyref.trunc_int64(x)
        if i < 0:
            i += n
        if i >= n:
            if probe in ("read", "read-twice") or i > 1024 * 1024:
                accept = [beyond]
            else:
                accept = None       # a small fill: left to the histories above
        else:
            if probe == "read":
                accept = [("ok", prefix + "r %s\n" % pyref.pretty(lst[i]) + unchanged)]
            elif probe == "read-twice":
                accept = [("ok", prefix + "r %s %s\n" % (pyref.pretty(lst[i]), pyref.pretty(lst[i])) + unchanged)]
            elif probe == "store":
                l2 = list(lst)
                l2[i] = 7.0
                accept = [("ok", prefix + "w\n" + "e %s %s\n" % (pyref.fmt_f(float(n)), pyref.pretty(l2)))]
            else:
                accept = None
    prog = ("{\n" if not HOLDERS[h] else "BEGIN {\n") + "\n".join(lines) + "\n}"
    meta = {"prog": prog, "doc": doc, "history": hist, "arrays": [h], "index": isrc, "probe": probe}
    if accept is not None:
        meta["accept"] = [list(a) for a in accept]
    else:
        meta["accept_prefix"] = prefix
    return Case(cid, simple_run(cid, prog, [doc]), meta, abs(x) >= 2.0 ** 31 or x != x, ["extreme"])


def _calls(e, n, methods):
    if e[0] != "call":
        return False
    if e[1] == n and e[2] in methods:
        return True
    return any(_calls(x, n, methods) for x in e[3])


def cleanup_plan(state):
    """pops (outermost holder first) that remove every named list stored inside a named list"""
    sim = Ideal(V.clone(state.arr))
    plan = []
    for _ in range(20):
        holders = [n for n, l in sim.arr.items() if any(sim.names_inside(x) for x in l)]
        if not holders:
            return plan
        contained = set()
        for n in holders:
            for x in sim.arr[n]:
                contained |= sim.names_inside(x)
        outer = [n for n in holders if n not in contained] or holders
        n = outer[0]
        sim.arr[n].pop()
        plan.append({"k": "expr", "e": ("call", n, "pop", [])})
    return plan


class C15(Check):
    pid = "C15"
    props = V.existing_props(["C15_arrays.v"])
    rule = ("histories of 1-40 operations (push, pop, popfirst, a[i] read, a[i] = v write incl. negative and past-the-end indices, "
            "length, contains, sort; method calls nested in method arguments up to depth 3) over 1-3 arrays held by distinct names "
            "(fresh variable, inside the document, inside an object slot, inside an array slot), elements of every kind incl. unset, "
            "nested arrays and objects; after every step the result, every array and its length are printed and compared with a "
            "Python list machine (contains = '==' element by element in order, sort stable/numeric iff all numbers/copy); "
            "alias-free by construction; plus recursive functions whose body calls push/contains with the recursive call as the "
            "argument (the same call site re-entered inside its own argument: deep copy, chains, fan-out, mutual recursion, member-path "
            "receivers) vs Python mirrors; plus arrays of special values (NaN computed several ways, +-Inf, -0, numeric strings of "
            "every shape, booleans, null, unset; literal, pushed, from the document, in slots) queried with special needles: every "
            "a[i] == v printed next to a.contains(v), judged against each other and against the documented ==; plus extreme indices "
            "(+-2^63 and neighbours, +-2^62, +-2^32, +-2^31, 1e19, 1e300, 2^64, NaN, +-Inf, literal and computed from the length) read, "
            "stored to and incremented after every length-changing operation (push, pop, popfirst, store past the end, sort, "
            "reassignment): an error below -length, null above the end, never another outcome; "
            "non-trivial = a removal followed by an insertion on the same array, or a nested call (special: a NaN involved; "
            "extreme: |index| >= 2^31 or NaN)")

    def generate(self, rng, tier):
        n = 700 if tier == "quick" else 20000
        cases = []
        all_names = list(HOLDERS)
        for k in range(n):
            if k < len(all_names):
                names = [all_names[k]]
            else:
                names = rng.sample(all_names, rng.choice([1, 2, 2, 3, 3]))
            nsteps = rng.choice([1, 2, 3, 5, 8]) if rng.random() < 0.15 else rng.randint(6, 40)
            cases.append(build_case(rng, "h%d" % k, nsteps, names))
        for k in range(30 if tier == "quick" else 400):
            cases.append(build_bulk(rng, "b%d" % k, big=(k % 15 == 7)))
        for k in range(150 if tier == "quick" else 3000):
            cases.append(build_reentrant(rng, "e%d" % k))
        for k in range(160 if tier == "quick" else 4000):
            cases.append(build_special(rng, "sp%d" % k))
        for k in range(320 if tier == "quick" else 8000):
            cases.append(build_extreme(rng, "x%d" % k))
        return cases

    def oracle(self, case, impl):
        m = case.meta
        if "accept" in m or "accept_prefix" in m:
            if impl.outcome in ("timeout", "noresult", "badcase"):
                return None
            got = impl.stdout.decode("utf-8", "replace")
            what = "%s on %s after %s" % (m["probe"], m["index"], " ; ".join(m["history"][:-1]))
            if impl.outcome not in ("ok", "runtime"):
                return "extreme index (%s): the run ended in %r, output %r" % (what, impl.outcome, got)
            if "accept" in m:
                if [impl.outcome, got] not in m["accept"]:
                    return "extreme index (%s): documented %s, implementation %r %r" % (
                        what, " or ".join("%s %r" % (a[0], a[1]) for a in m["accept"]), impl.outcome, got)
            elif not got.startswith(m["accept_prefix"]):
                return "extreme index (%s): output %r does not start with %r" % (what, got, m["accept_prefix"])
            return None
        if "expect_stdout" not in m:
            return None
        got = impl.stdout.decode("utf-8", "replace")
        if "agree" in m and impl.outcome == "ok":
            # the implementation against itself: contains(v) is the OR of a[i] == v
            for ln in got.splitlines():
                f = ln.split(" ")
                if f[0].startswith("q") and "|" in f:
                    eqs, res = f[1:f.index("|")], f[f.index("|") + 1:]
                    if len(res) != 1 or any(w not in ("true", "false") for w in eqs + res):
                        return "contains vs ==: unreadable line %r" % ln
                    if ("true" in eqs) != (res[0] == "true"):
                        return "contains(%s) says %s but == applied to each element says [%s] (array and queries: %s)" % (
                            m["agree"][int(f[0][1:])], res[0], ", ".join(eqs), m["history"][0])
        if impl.outcome in ("timeout", "noresult", "badcase"):
            return None
        if m["expect_outcome"] == "any":
            if impl.outcome not in ("ok", "runtime"):
                return "call with an undocumented argument count ended in %r" % impl.outcome
            if not got.startswith(m["expect_stdout"]):
                return "history diverges from the ideal list: %s" % first_diff(m["expect_stdout"], got)
            return None
        if impl.outcome != m["expect_outcome"]:
            return "ideal list machine ends %s, implementation %s; %s" % (m["expect_outcome"], impl.outcome, first_diff(m["expect_stdout"], got))
        if got != m["expect_stdout"]:
            return "history diverges from the ideal list: %s" % first_diff(m["expect_stdout"], got)
        return None


def first_diff(want, got):
    w, g = want.splitlines(), got.splitlines()
    for i in range(max(len(w), len(g))):
        a = w[i] if i < len(w) else "<nothing>"
        b = g[i] if i < len(g) else "<nothing>"
        if a != b:
            return "first difference at output line %d: ideal %r, implementation %r" % (i + 1, a, b)
    return "outputs equal"


CHECK = C15()
