"""C15: array methods behave like an ideal list under every sequence of operations."""
from framework import Check, Case
from jqlib import simple_run
import pyref
from pyref import UNSET, RuntimeErr
import valgen as V


class Reject(Exception):
    """the step would make the run depend on slice aliasing (F-C09-alias, C09's business): regenerate"""


class Unspecified(Exception):
    """a call outside the documented signatures (argument count): only 'no crash' is asserted from here on"""


# ---------------------------------------------------------------- the ideal list machine

class Ideal:
    """State: holder name -> Python list (reference semantics, as the property's ideal list).
    Expressions: ("lit", v) | ("idx", name, i) | ("call", name, method, [args])."""

    def __init__(self, arrays):
        self.arr = arrays
        self.frozen = set()         # names whose list was stored into another list during this step

    def names_inside(self, v, acc=None):
        acc = set() if acc is None else acc
        for n, l in self.arr.items():
            if v is l:
                acc.add(n)
        if isinstance(v, list):
            for x in v:
                self.names_inside(x, acc)
        elif isinstance(v, dict):
            for x in v.values():
                self.names_inside(x, acc)
        return acc

    def will_resize(self, name):
        if name in self.frozen:
            raise Reject()

    def store_into(self, name, v):
        inside = self.names_inside(v)
        if name in inside:
            raise Reject()          # a list inside itself: C17's business, and depends on slice growth
        self.frozen |= inside

    def index(self, name, i):
        lst = self.arr[name]
        if i < 0:
            i += len(lst)
            if i < 0:
                raise RuntimeErr("index before the start")
        return i

    def eval(self, e):
        if e[0] == "lit":
            return V.clone(e[1])
        if e[0] == "idx":
            lst = self.arr[e[1]]
            i = self.index(e[1], e[2])
            return lst[i] if i < len(lst) else None
        _, name, m, args = e
        lst = self.arr[name]
        vals = [self.eval(a) for a in args]
        want = {"push": 1, "contains": 1, "pop": 0, "popfirst": 0}.get(m)
        if len(vals) != (0 if want is None else want):
            raise Unspecified()
        if m == "length":
            return float(len(lst))
        if m == "push":
            self.will_resize(name)
            self.store_into(name, vals[0])
            lst.append(vals[0])
            return lst
        if m == "pop":
            if not lst:
                return None
            self.will_resize(name)
            return lst.pop()
        if m == "popfirst":
            if not lst:
                return None
            self.will_resize(name)
            return lst.pop(0)
        if m == "contains":
            for item in lst:
                if pyref.binop("==", vals[0], item):
                    return True
            return False
        if m == "sort":
            if all(pyref.kind(x) == "num" for x in lst):
                return sorted(lst, key=float)
            return sorted(lst, key=lambda x: pyref.strform(x).encode() if x is not UNSET else b"")
        raise ValueError(m)

    def write(self, name, i, e):
        lst = self.arr[name]
        i = self.index(name, i)                 # the target is resolved first
        v = self.eval(e)
        if self.names_inside(v):
            raise Reject()
        if i >= len(lst):
            self.will_resize(name)
            lst.extend([None] * (i + 1 - len(lst)))
        lst[i] = v


def src(e):
    if e[0] == "lit":
        return pyref.literal(e[1])
    if e[0] == "idx":
        return "%s[%d]" % (e[1], e[2])
    return "%s.%s(%s)" % (e[1], e[2], ", ".join(src(a) for a in e[3]))


def depth_of(e):
    if e[0] != "call":
        return 0
    return 1 + max([depth_of(a) for a in e[3]] + [0])



# ---------------------------------------------------------------- generator

HOLDERS = {
    "a": lambda lit: "a = %s" % lit,
    "b": lambda lit: "b = %s" % lit,
    "$.list": None,
    "$.box.list": None,
    "o.items": lambda lit: "o = {items: %s}" % lit,
    "p.inner.items": lambda lit: "p = {inner: {items: %s}, items: [0]}" % lit,
    "t[1]": lambda lit: "t = [null, %s, 7]" % lit,
}
METHODS = ["push"] * 6 + ["pop"] * 3 + ["popfirst"] * 3 + ["length"] * 2 + ["contains"] * 4 + ["sort"] * 3


class Gen:
    def __init__(self, rng, names):
        self.r = rng
        self.names = names

    def lit(self, containers=0.25):
        return ("lit", V.value(self.r, 2, True, containers))

    def arg(self, d, lens):
        k = self.r.random()
        if d > 0 and k < 0.55:
            return self.call(d, lens)
        if d > 0 and k < 0.65:
            return self.idx(lens)
        return self.lit()

    def idx(self, lens, name=None):
        name = name or self.r.choice(self.names)
        n = lens.get(name, 0)
        return ("idx", name, self.r.randint(-n - 1 if self.r.random() < 0.1 else -n, n + 2))

    def call(self, d, lens, malformed=False):
        name = self.r.choice(self.names)
        m = self.r.choice(METHODS)
        nargs = 1 if m in ("push", "contains") else 0
        if malformed:
            nargs = self.r.choice([x for x in (0, 1, 2, 3) if x != nargs])
        return ("call", name, m, [self.arg(d - 1, lens) for _ in range(nargs)])

    def step(self, lens):
        k = self.r.random()
        if k < 0.004:
            return {"k": "expr", "e": self.call(2, lens, malformed=True)}
        if k < 0.03:
            # the holder gets a new array (a literal, or its own sorted copy): later calls must act on the new one
            name = self.r.choice(self.names)
            if self.r.random() < 0.5:
                e = ("call", name, "sort", [])
            else:
                e = ("lit", [V.value(self.r, 1, True, 0.15) for _ in range(self.r.randint(0, 4))])
            return {"k": "rebind", "name": name, "e": e}
        if k < 0.70:
            d = self.r.choice([1, 1, 2, 2, 3])
            return {"k": "expr", "e": self.call(d, lens)}
        if k < 0.80:
            return {"k": "expr", "e": self.idx(lens)}
        name = self.r.choice(self.names)
        n = lens.get(name, 0)
        i = self.r.randint(-n - 1 if self.r.random() < 0.08 else -n, n + 3)
        others = [x for x in self.names if x != name]
        if others and self.r.random() < 0.3:
            g = Gen(self.r, others)
            e = g.call(self.r.choice([1, 2]), lens)
        else:
            e = self.lit()
        return {"k": "write", "name": name, "i": i, "e": e}


def build_case(rng, cid, nsteps, names):
    init = {}
    for n in names:
        doc = HOLDERS[n] is None
        init[n] = [V.value(rng, 2, not doc, 0.2) for _ in range(rng.choice([0, 0, 1, 2, 3, 4]))]
        if rng.random() < 0.06:
            # long enough for the merging phase of a stable sort, many equal keys that print differently
            pool = [1.0, "1", True, False, None, 0.0, -0.0, "0", "", "a", 10.0, "10", 9.0] if rng.random() < 0.7 else [0.0, -0.0, 1.0, 2.0]
            init[n] = [rng.choice(pool) for _ in range(rng.randint(13, 30))]
    state = Ideal({n: V.clone(init[n]) for n in names})
    g = Gen(rng, names)

    prog = []
    for n in names:
        if HOLDERS[n]:
            prog.append(HOLDERS[n](pyref.literal(init[n])))
    docv = {"list": init.get("$.list", ["other"]), "box": {"list": init.get("$.box.list", [])}, "n": 1}

    def state_src(k):
        return 'print "s%d", %s' % (k, ", ".join("%s, %s.length()" % (n, n) for n in names))

    def state_out(k):
        return "s%d " % k + " ".join("%s %s" % (pyref.pretty(state.arr[n]), pyref.fmt_f(float(len(state.arr[n])))) for n in names)

    out = [state_out(0)]
    prog.append(state_src(0))
    expect = "ok"
    removed = set()
    nontrivial = False
    k = 0
    pending = []            # clean-up pops that restore alias-freedom
    history = []
    while k < nsteps or pending:
        k += 1
        lens = {n: len(l) for n, l in state.arr.items()}
        final = None
        for attempt in range(40):
            st = pending[0] if pending else g.step(lens)
            trial = Ideal(V.clone(state.arr))
            try:
                if st["k"] == "expr":
                    res = trial.eval(st["e"])
                    line = "r%d %s" % (k, pyref.pretty(res))
                elif st["k"] == "rebind":
                    trial.arr[st["name"]] = trial.eval(st["e"])
                    line = "w%d" % k
                else:
                    trial.write(st["name"], st["i"], st["e"])
                    line = "w%d" % k
                final = ("ok", st, trial, line)
                break
            except Reject:
                continue
            except RuntimeErr:
                if rng.random() < 0.04 or attempt == 39:
                    final = ("runtime", st, None, None)
                    break
            except Unspecified:
                final = ("any", st, None, None)
                break
        if final is None:
            break
        verdict, st, trial, line = final
        if pending:
            pending.pop(0)
        if st["k"] == "expr":
            text = src(st["e"])
            prog.append('print "r%d", %s' % (k, text))
        else:
            text = ("%s = %s" % (st["name"], src(st["e"])) if st["k"] == "rebind"
                    else "%s[%d] = %s" % (st["name"], st["i"], src(st["e"])))
            prog.append(text)
            prog.append('print "w%d"' % k)
        history.append(text)
        if verdict != "ok":
            expect = verdict
            break
        # non-triviality: a removal followed by an insertion on the same array, or a nested call
        e = st["e"]
        if depth_of(e) >= 2:
            nontrivial = True
        for n in names:
            if n in removed and (len(trial.arr[n]) > lens[n] or _calls(e, n, ("push",))):
                nontrivial = True
        for n in names:
            if len(trial.arr[n]) < lens[n] or _calls(e, n, ("pop", "popfirst")):
                removed.add(n)
        state = Ideal(trial.arr)
        out.append(line)
        prog.append(state_src(k))
        out.append(state_out(k))
        # alias-freedom: a named list stored inside a named list is removed again before anything else happens
        if not pending:
            pending = cleanup_plan(state)
    text = "{\n " + "\n ".join(prog) + "\n}"
    stdout = "".join(l + "\n" for l in out)
    meta = {"prog": text, "doc": V.to_json(docv), "history": history, "arrays": names,
            "expect_outcome": expect, "expect_stdout": stdout}
    return Case(cid, simple_run(cid, text, [V.to_json(docv)]), meta, nontrivial)


def build_bulk(rng, cid, big=False):
    """loops that grow an array past the sizes where storage strategies change (12/13, 32, 256, 1024), drain it from the
    front, refill, pop, write past the end; lengths, ends, the whole array, its sort and contains are printed"""
    holder = rng.choice(["a", "$.list", "o.items", "t[1]"])
    # (the extracted model needs seconds per case beyond a few hundred elements: the largest sizes are rare)
    n = rng.choice([513, 1000, 1024, 1025]) if big else rng.choice([12, 13, 16, 17, 31, 32, 33, 64, 65, 128, 129, 255, 256, 257, 300])
    k = rng.choice([0, 1, n // 2, n - 1, n, rng.randint(0, n)])
    m = rng.randint(0, 40)
    p = rng.randint(0, 12)
    mixed = rng.random() < 0.5
    h = holder
    init = {"a": "a = []", "$.list": "", "o.items": "o = {items: []}", "t[1]": "t = [null, [], 7]"}[holder]
    lst = []
    out = []
    sim = Ideal({h: lst})
    fmt = lambda v: pyref.pretty(v)
    for i in range(n):
        lst.append(float((i * 7) % 13))
    mid = n // 2
    out.append("n %s %s %s %s" % (fmt(float(len(lst))), fmt(lst[0]), fmt(lst[-1]), fmt(lst[mid])))
    ssum = 0.0
    for i in range(k):
        ssum += lst.pop(0)
    out.append("k %s %s %s" % (fmt(float(len(lst))), fmt(ssum), fmt(lst[0] if lst else None)))      # [-1] of an empty array is an error
    for i in range(m):
        lst.append("s" + pyref.fmt_f(float(i)) if mixed else float(i * 3))
    last = None
    for i in range(p):
        last = lst.pop() if lst else None
    gap = rng.choice([0, 1, 3])
    lst.extend([None] * gap)
    lst.append(True if mixed else 2.5)
    out.append("m %s %s %s" % (fmt(float(len(lst))), pyref.pretty(last) if p else "<unknown>", pyref.pretty(lst)))
    out.append("sort %s" % pyref.pretty(sim.eval(("call", h, "sort", []))))
    probes = [5.0, "s3", 12.0, None, 2.5, "0"]
    out.append("c " + " ".join(fmt(sim.eval(("call", h, "contains", [("lit", x)]))) for x in probes))
    out.append("after %s %s %s" % (fmt(float(len(lst))), fmt(lst[0]), fmt(lst[-1])))
    prog = ["{", " " + init,
            " for (i = 0; i < %d; i++) { %s.push(i * 7 %% 13) }" % (n, h),
            ' print "n", %s.length(), %s[0], %s[-1], %s[%d]' % (h, h, h, h, mid),
            " sum = 0", " for (i = 0; i < %d; i++) { sum += %s.popfirst() }" % (k, h),
            ' print "k", %s.length(), sum, %s[0]' % (h, h),
            " for (i = 0; i < %d; i++) { %s.push(%s) }" % (m, h, '"s" + i' if mixed else "i * 3"),
            " for (i = 0; i < %d; i++) { last = %s.pop() }" % (p, h),
            " %s[%s.length() + %d] = %s" % (h, h, gap, "true" if mixed else "2.5"),
            ' print "m", %s.length(), last, %s' % (h, h),
            ' print "sort", %s.sort()' % h,
            ' print "c", %s' % ", ".join("%s.contains(%s)" % (h, pyref.literal(x)) for x in probes),
            ' print "after", %s.length(), %s[0], %s[-1]' % (h, h, h), "}"]
    text = "\n".join(prog)
    doc = '{"list": [], "n": 1}'
    meta = {"prog": text, "doc": doc, "history": ["bulk n=%d popfirst=%d push=%d pop=%d" % (n, k, m, p)], "arrays": [h],
            "expect_outcome": "ok", "expect_stdout": "".join(l + "\n" for l in out)}
    return Case(cid, simple_run(cid, text, [doc]), meta, True, ["bulk"])


def _calls(e, n, methods):
    if e[0] != "call":
        return False
    if e[1] == n and e[2] in methods:
        return True
    return any(_calls(x, n, methods) for x in e[3])


def cleanup_plan(state):
    """pops (outermost holder first) that remove every named list stored inside a named list"""
    sim = Ideal(V.clone(state.arr))
    plan = []
    for _ in range(20):
        holders = [n for n, l in sim.arr.items() if any(sim.names_inside(x) for x in l)]
        if not holders:
            return plan
        contained = set()
        for n in holders:
            for x in sim.arr[n]:
                contained |= sim.names_inside(x)
        outer = [n for n in holders if n not in contained] or holders
        n = outer[0]
        sim.arr[n].pop()
        plan.append({"k": "expr", "e": ("call", n, "pop", [])})
    return plan


class C15(Check):
    pid = "C15"
    props = V.existing_props(["C15_arrays.v"])
    rule = ("histories of 1-40 operations (push, pop, popfirst, a[i] read, a[i] = v write incl. negative and past-the-end indices, "
            "length, contains, sort; method calls nested in method arguments up to depth 3) over 1-3 arrays held by distinct names "
            "(fresh variable, inside the document, inside an object slot, inside an array slot), elements of every kind incl. unset, "
            "nested arrays and objects; after every step the result, every array and its length are printed and compared with a "
            "Python list machine (contains = '==' element by element in order, sort stable/numeric iff all numbers/copy); "
            "alias-free by construction; non-trivial = a removal followed by an insertion on the same array, or a nested call")

    def generate(self, rng, tier):
        n = 700 if tier == "quick" else 20000
        cases = []
        all_names = list(HOLDERS)
        for k in range(n):
            if k < len(all_names):
                names = [all_names[k]]
            else:
                names = rng.sample(all_names, rng.choice([1, 2, 2, 3, 3]))
            nsteps = rng.choice([1, 2, 3, 5, 8]) if rng.random() < 0.15 else rng.randint(6, 40)
            cases.append(build_case(rng, "h%d" % k, nsteps, names))
        for k in range(30 if tier == "quick" else 400):
            cases.append(build_bulk(rng, "b%d" % k, big=(k % 15 == 7)))
        return cases

    def oracle(self, case, impl):
        m = case.meta
        if "expect_stdout" not in m:
            return None
        got = impl.stdout.decode("utf-8", "replace")
        if impl.outcome in ("timeout", "noresult", "badcase"):
            return None
        if m["expect_outcome"] == "any":
            if impl.outcome not in ("ok", "runtime"):
                return "call with an undocumented argument count ended in %r" % impl.outcome
            if not got.startswith(m["expect_stdout"]):
                return "history diverges from the ideal list: %s" % first_diff(m["expect_stdout"], got)
            return None
        if impl.outcome != m["expect_outcome"]:
            return "ideal list machine ends %s, implementation %s; %s" % (m["expect_outcome"], impl.outcome, first_diff(m["expect_stdout"], got))
        if got != m["expect_stdout"]:
            return "history diverges from the ideal list: %s" % first_diff(m["expect_stdout"], got)
        return None


def first_diff(want, got):
    w, g = want.splitlines(), got.splitlines()
    for i in range(max(len(w), len(g))):
        a = w[i] if i < len(w) else "<nothing>"
        b = g[i] if i < len(g) else "<nothing>"
        if a != b:
            return "first difference at output line %d: ideal %r, implementation %r" % (i + 1, a, b)
    return "outputs equal"


CHECK = C15()
