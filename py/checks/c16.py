"""C16: string, number, object methods and num()/json() honour their documented contract."""
import json, math, re
from fractions import Fraction
from framework import Check, Case
from jqlib import simple_run
import pyref
import valgen as V
import goparsefloat


def hexs(b):
    return b.hex()


# ---------------------------------------------------------------- reference helpers

def zero_like(r, x):
    """Go's math.Floor/Ceil/Round keep the sign of x on a zero result"""
    return math.copysign(0.0, x) if r == 0 else r


def ref_floor(x):
    return zero_like(float(math.floor(Fraction(x))), x)


def ref_ceil(x):
    return zero_like(float(math.ceil(Fraction(x))), x)


def ref_round(x):
    f = Fraction(x)
    r = math.floor(abs(f) + Fraction(1, 2))          # halves away from zero, exactly
    return zero_like(float(-r if f < 0 else r), x)


def parse_num(s):
    """the documented meaning of num(s) on the decimal spellings (Arabic-Indic and other non-ASCII digits are not numbers)"""
    return pyref.parse_float(s) if s.isascii() else None


def ascii_nonletters(b):
    return bytes(c for c in b if c < 0x80 and not (65 <= c <= 90 or 97 <= c <= 122))


# ---------------------------------------------------------------- input pools

ALPHA = ["a", "b", "a", ",", " ", "é", "日", ".", "ab", "aa", "A", "Z", "1", "-", "\t", "'", '"', "\\", "€", "𝄞"]
SEPS = ["", ",", "a", "aa", "ab", "aba", ", ", "é", "日", "日本", ".", " ", "b,", "€", "\\", '"', "xyz"]
NUM_EDGE = [0.0, -0.0, 0.5, -0.5, 1.5, -1.5, 2.5, -2.5, 3.5, 0.49999999999999994, -0.49999999999999994,
            0.5000000000000001, -0.5000000000000001, 1e-300, -1e-300, 5e-324, -5e-324, 2.0 ** 51 + 0.5, -(2.0 ** 51) - 0.5,
            2.0 ** 52 - 0.5, 2.0 ** 52, 2.0 ** 52 + 1, 2.0 ** 53, 2.0 ** 53 + 2, -(2.0 ** 63), 2.0 ** 63, 1e300, -1e300,
            1.7976931348623157e308, 4503599627370495.5, -4503599627370495.5, 0.1, -0.1, 0.9999999999999999, -0.9999999999999999,
            1e21, 1e22, 123456789.5, -123456789.5, 7.0, -7.0, 2.4999999999999996, 2.5000000000000004]
KEYS = ["a", "b", "k", "zz", "id", "name", "é", "", "x y", "0", "1", "A", "len", "lengthy", "key1"]
PROTO_NAMES = ["length", "pluck"]      # requested, never own keys: an absent key named like an object method is null too
NUM_STRS = ["", " ", "0", "-0", "+0", "1", "12", "-3.5", "+7", ".5", "5.", "-.5", "1e3", "1E3", "1e+3", "1e-3", "-2.5e-3", "1e0",
            "1e999", "-1e999", "1e-999", "-1e-999", "1e308", "1.7976931348623157e308", "1.7976931348623159e308", "2e308",
            "4.9e-324", "2.4e-324", "2.5e-324", "3e-324", "0.1", "0.30000000000000004", "0.1000000000000000055511151231257827",
            "9007199254740993", "9007199254740992.5", "123456789012345678901234567890", "0.000000000000000000000000000001",
            "1.00000000000000011102230246251565404236316680908203125", "1.00000000000000011102230246251565404236316680908203126",
            "inf", "Inf", "INF", "-inf", "+inf", "infinity", "-Infinity", "nan", "NaN",
            " 1", "1 ", "\t1", "1\t", "abc", "1abc", "abc1", "1e", "e5", "1e+", "--1", "+-1", "1..2", "1.2.3", ".", "+", "-", "e",
            "1,5", "1 000", "١٢", "1é", "true", "null", "0.5.", "00012", "-00.50"]
DIGIT_FIXED = ["9999999999999999999", "9223372036854775807", "9223372036854775808", "9223372036854775809", "18446744073709551615",
               "18446744073709551616", "9300000000000000000", "09223372036854775808", "0009999999999999999", "00000000000000000001",
               "10000000000000000000", "99999999999999999999", "9007199254740993", "9007199254740992", "9007199254740991",
               "999999999999999999", "1000000000000000000", "4611686018427387904", "12345678901234567890", "0000000000000000000",
               "-9223372036854775808", "-9223372036854775809", "-9999999999999999999", "+9999999999999999999", "9999999999999999999.0",
               "9999999999999999999e0", "999999999999999999.9", "99999999999999999999999", "0018446744073709551615", "-0", "-00", "+0", "-0000000000000000000", "007", "-12"]
DIGIT_ANCHORS = [2 ** 53, 2 ** 63, 2 ** 64, 2 ** 31, 2 ** 32, 2 ** 62, 10 ** 15, 10 ** 16, 10 ** 17, 10 ** 18, 10 ** 19, 10 ** 20, 10 ** 21,
                 10 ** 22, 10 ** 23, 10 ** 25, 9 * 10 ** 18, 93 * 10 ** 17, 5 * 10 ** 18, 2 ** 63 + 2 ** 10, 2 ** 64 - 2 ** 10]


def digit_string(rng):
    """a long run of decimal digits (15-25 digits, around the int64 / uint64 / 2^53 borders and powers of ten), plain or
    with leading zeros, a sign, a point or an exponent: every one is a numeric string whose value is its nearest double"""
    r = rng.random()
    if r < 0.45:
        n = rng.choice(DIGIT_ANCHORS) + rng.choice([-2, -1, 0, 0, 1, 2, rng.randint(-10 ** 6, 10 ** 6)])
        d = str(abs(n))
    elif r < 0.6:
        d = "9" * rng.randint(15, 25)
    else:
        d = str(rng.randint(1, 9)) + "".join(rng.choice("0123456789") for _ in range(rng.randint(14, 24)))
    v = rng.random()
    if v < 0.45:
        return d
    if v < 0.6:
        return "0" * rng.choice([1, 2, 3, max(0, 19 - len(d)), max(0, 20 - len(d))]) + d
    if v < 0.7:
        return rng.choice("+-") + d
    if v < 0.8:
        return d + rng.choice([".0", ".", "e0", "E+0", "e1", "e-1", ".5"])
    k = rng.randint(1, len(d) - 1)
    return d[:k] + "." + d[k:]


METHODS = ["length", "push", "pop", "popfirst", "contains", "sort", "split", "lower", "upper", "floor", "ceil", "round", "pluck"]
RECEIVERS = ["(5)", "(-2.5)", '"abc"', '""', "true", "false", "null", "unset_var", '[1, "a"]', "[]", "{a: 1}", "{}", "/re/",
             "$", "$.s", "$.missing", "$.missing.deeper", "say", "num", "(0)", '"é"', "[[1]]", "{a: {b: 2}}"]
COMPATIBLE = [(['"abc"', '""', '"é"', "$.s"], ["length", "split", "lower", "upper"]),
              (["(5)", "(-2.5)", "(0)", "$.n"], ["floor", "ceil", "round"]),
              (['[1, "a"]', "[]", "[[1]]", "$.l"], ["length", "push", "pop", "popfirst", "contains", "sort"]),
              (["{a: 1}", "{}", "{a: {b: 2}}", "$.o", "$", "unset_var"], ["length", "pluck"])]
ARGS = ["1", "(-1)", '"a"', '""', '","', "true", "null", "unset_var", "[1]", "[]", "{a: 1}", "/x/", "say", "$", "0.5", '"length"']


def rand_string(rng, maxlen=12):
    return "".join(rng.choice(ALPHA) for _ in range(rng.randint(0, maxlen)))


class C16(Check):
    pid = "C16"
    props = V.existing_props(["C16_methods.v"])
    rule = ("families: split (strings over an alphabet with multi-byte characters, quotes and backslashes; separators empty, single, "
            "multi-byte, repeated, overlapping, at both ends, equal to or longer than the string; invalid UTF-8 via program literals): "
            "sep.join(pieces) == s, no piece contains sep, empty sep => one piece per character, length() = byte count; upper/lower "
            "vs ASCII case mapping and receiver unchanged; floor/ceil/round on halves, negatives, +-0, integers >= 2^52, 1e300, "
            "subnormals and random bit patterns vs exact rational arithmetic; object length and pluck (present, absent, repeated keys; "
            "result fresh, receiver unchanged; result, original and a pluck of the result stay independent under later plain/compound/++ "
            "stores into any of them); num() on numeric and non-numeric spellings vs correctly rounded conversion, incl. every "
            "combination of sign, base prefix (0x 0o 0b), digit separators, exponent letter, padding, and the inf/nan words; every "
            "method and builtin on every receiver kind with 0-3 arguments of every kind: ok or runtime error, never a crash; the receiver "
            "variable / member / element rebound to every other kind while the call's arguments are evaluated (every method x replacement). "
            "non-trivial = non-empty receiver and a result that differs from it")

    # ------------------------------------------------------------ generators
    def gen_split(self, rng, n, cases):
        for k in range(n):
            cid = "sp%d" % k
            mode = rng.random()
            sep = rng.choice(SEPS)
            if mode < 0.5:
                # built from pieces, so that the separator occurs (also at the ends, repeatedly)
                pieces = [rng.choice(["", "", "a", "b", "x", "é", "ab", "日", " "]) for _ in range(rng.randint(1, 6))]
                s = sep.join(pieces) if sep else "".join(pieces)
            elif mode < 0.9:
                s = rand_string(rng)
            else:
                s = rng.choice(["", sep, sep + sep, "aaa", "aaaa", "ababa", "abababa", "é", "日本語", ",,", ",a,", "a,,b"])
            if rng.random() < 0.06:
                # long enough for the searching strategies of a library to change (index tables, rolling hashes)
                sep = rng.choice(SEPS[1:] + ["abcdefgh", "aaaaaaaa", "ababab", "日本語", ", , "])
                pieces = [rng.choice(["", "a", "b", "ab", "abc", "x", "é", "aaaa", "0123456789"]) for _ in range(rng.randint(20, 90))]
                s = sep.join(pieces)
            via = rng.choice(["doc", "doc", "lit"])
            sb, pb = s.encode(), sep.encode()
            if via == "lit" and any(c in s + sep for c in "\"'\\\t"):
                via = "doc"
            if k % 25 == 7:
                # invalid UTF-8 in program literals: bytes are kept
                via = "lit"
                sb = rng.choice([b"a\xffb", b"\xc3", b"\xe6\x97", b"x\x80\x80y", b"\xff\xfe", b"a\xc3\xa9\xc3"])
                pb = rng.choice([b"", b"\xff", b"a", b"\x80"])
            body = ('\n print x.length()\n for (p in x) { print "<" + p + ">" }\n print "len", S.length(), P.length()\n}')
            if via == "doc":
                prog = ("{ x = $.s.split($.sep)" + body.replace("S.", "$.s.").replace("P.", "$.sep.")).encode()
                doc = json.dumps({"s": s, "sep": sep}, ensure_ascii=bool(k % 2))
            else:
                prog = b'{ x = "' + sb + b'".split("' + pb + b'")' + body.encode().replace(b"S.", b'"' + sb + b'".').replace(b"P.", b'"' + pb + b'".')
                doc = "{}"
            meta = {"fam": "split", "prog": prog.decode("utf-8", "replace"), "doc": doc, "s_hex": hexs(sb), "sep_hex": hexs(pb),
                    "s": sb.decode("utf-8", "replace"), "sep": pb.decode("utf-8", "replace")}
            cases.append(Case(cid, simple_run(cid, prog, [doc]), meta, len(sb) > 0 and (pb in sb if pb else len(sb) > 1)))

    def gen_case(self, rng, n, cases):
        fixed = ["", "abc", "ABC", "aBc dEf", "hello, World! 123", "é", "Straße", "ǅ", "İstanbul", "a1_b2-C3", "\t x", "@[`{", "AZaz"]
        for k in range(n):
            cid = "uc%d" % k
            s = fixed[k] if k < len(fixed) else rand_string(rng, 10) + rng.choice(["", "Q", "q", "Zz"])
            if k >= len(fixed) and rng.random() < 0.6:
                s = "".join(c for c in s if ord(c) < 128)
            prog = "{ print $.s.upper()\n print $.s.lower()\n print $.s\n print $.s.upper().length(), $.s.length() }"
            doc = json.dumps({"s": s}, ensure_ascii=False)
            meta = {"fam": "case", "prog": prog, "doc": doc, "s": s}
            cases.append(Case(cid, simple_run(cid, prog, [doc]), meta, s.upper() != s or s.lower() != s))

    def gen_round(self, rng, n, cases):
        for k in range(n):
            cid = "rd%d" % k
            if k < len(NUM_EDGE):
                x = NUM_EDGE[k]
            else:
                m = rng.random()
                if m < 0.3:
                    x = V.rand_finite(rng)
                elif m < 0.55:
                    x = float(rng.randint(-1000, 1000)) + 0.5
                elif m < 0.7:
                    h = float(rng.randint(-10 ** 6, 10 ** 6)) + 0.5
                    x = math.nextafter(h, rng.choice([-math.inf, math.inf]))
                elif m < 0.85:
                    x = rng.uniform(-100, 100)
                else:
                    x = float(rng.randint(2 ** 51, 2 ** 54)) * rng.choice([1, -1]) + rng.choice([0, 0.5])
            if k % 9 == 4 and (x == 0 or 1e-20 < abs(x) < 1e15):
                lit = pyref.literal(x)
                prog = "{ x = %s\n print x.floor(), x.ceil(), x.round()\n print x }" % lit
                doc = "{}"
            else:
                prog = "{ print $.x.floor(), $.x.ceil(), $.x.round()\n print $.x }"
                doc = '{"x": %s}' % repr(x)
            meta = {"fam": "round", "prog": prog, "doc": doc, "x": repr(x)}
            cases.append(Case(cid, simple_run(cid, prog, [doc]), meta, x != math.floor(x) if abs(x) < 2 ** 53 else False))

    def gen_pluck(self, rng, n, cases):
        for k in range(n):
            cid = "pl%d" % k
            o = {}
            for _ in range(rng.randint(0, 5)):
                o[rng.choice(KEYS)] = V.value(rng, 2, False, 0.3)
            wide = rng.random() < 0.08
            if wide:
                for i in rng.sample(range(40), rng.randint(10, 25)):
                    o["k%d" % i] = V.value(rng, 1, False, 0.2)
            keys = []
            for _ in range(rng.randint(8, 20) if wide else rng.randint(0, 4)):
                r = rng.random()
                if r < 0.5 and o:
                    keys.append(rng.choice(list(o)))
                elif r < 0.8:
                    keys.append(rng.choice(KEYS + PROTO_NAMES + (["k%d" % rng.randrange(40)] if wide else [])))
                elif keys:
                    keys.append(rng.choice(keys))
                else:
                    keys.append("absent")
            via = rng.choice(["doc", "doc", "lit"])
            if via == "lit" and all(re.fullmatch(r"[a-z][a-z0-9]*", kk) for kk in o):
                recv, setup, doc = "o", "o = %s\n " % pyref.literal(o), "{}"
            else:
                recv, setup, doc = "$.o", "", json.dumps({"o": o}, ensure_ascii=False)
            args = ", ".join(pyref.literal(kk) for kk in keys)
            # a requested key "length" becomes an own key of the result and shadows the method there
            plen = "" if "length" in keys else "p.length(), "
            prog = ("{ %sp = %s.pluck(%s)\n print p\n print %s\n print %s%s.length()\n p.fresh = 1\n print %s }"
                    % (setup, recv, args, recv, plen, recv, recv))
            meta = {"fam": "pluck", "prog": prog, "doc": doc, "o": V.jsonable(o), "keys": keys, "plen": bool(plen)}
            cases.append(Case(cid, simple_run(cid, prog, [doc]), meta, bool(o) and set(keys) != set(o)))

    def gen_num(self, rng, n, cases):
        for k in range(n):
            cid = "nm%d" % k
            if k < len(NUM_STRS):
                s = NUM_STRS[k]
            elif k < len(NUM_STRS) + len(DIGIT_FIXED):
                s = DIGIT_FIXED[k - len(NUM_STRS)]
            elif rng.random() < 0.4:
                s = digit_string(rng)
            else:
                m = rng.random()
                x = V.rand_finite(rng) if m < 0.4 else rng.uniform(-1e6, 1e6)
                if m < 0.5:
                    s = repr(x)
                elif m < 0.7:
                    s = "%.*e" % (rng.randint(0, 30), x)
                elif m < 0.8:
                    s = pyref.fmt_f(x) if abs(x) < 1e40 else repr(x)
                elif m < 0.9:
                    s = str(rng.randint(-10 ** 30, 10 ** 30)) + rng.choice(["", ".5", "e-20", "E5"])
                else:
                    s = rng.choice(["", " ", "x", "+"]) + repr(x) + rng.choice(["", " ", "x", "e", "."])
            if parse_num(s) is None and re.search(r"[_xXpP]", s) and re.search(r"[0-9]", s):
                s = "abc"       # hex-float / underscore spellings are outside the claim
            if k % 3 == 0 and not any(c in s for c in "\"'\\\t\n"):
                prog, doc = "{ print num(%s) }" % pyref.literal(s), "{}"
            else:
                prog, doc = "{ print num($.s) }", json.dumps({"s": s}, ensure_ascii=False)
            meta = {"fam": "num", "prog": prog, "doc": doc, "s": s}
            cases.append(Case(cid, simple_run(cid, prog, [doc]), meta, parse_num(s) is not None))
        for k, (src, want) in enumerate([("true", "null"), ("false", "null"), ("null", "null"), ("[1]", "null"), ("[]", "null"),
                                         ("{a: 1}", "null"), ("unset_var", "null"), ("/1/", "null"), ("$.missing", "null")]):
            cid = "nk%d" % k
            prog = "{ print num(%s) }" % src
            cases.append(Case(cid, simple_run(cid, prog, ["{}"]), {"fam": "numkind", "prog": prog, "doc": "{}", "want": want}, False))

    def gen_pluck_indep(self, rng, n, cases):
        """the plucked object and the original (and a pluck of the pluck) are independent: after every top-level store into any of
        them (plain, compound, ++; present, absent, repeated and new keys; dot and index form) all of them are printed"""
        ident = re.compile(r"[a-z][a-z0-9]*\Z")
        keys_pool = [kk for kk in KEYS if kk not in ("",)]
        for k in range(n):
            cid = "pi%d" % k
            o = {}
            for _ in range(rng.randint(1, 5)):
                o[rng.choice(keys_pool)] = V.value(rng, 1, False, 0.25) if rng.random() < 0.6 else float(rng.randint(-3, 9))
            via = rng.choice(["$", "$.o", "lit"])
            if via == "lit" and not all(ident.match(kk) for kk in o):
                via = "$.o"
            if via == "lit":
                recv, setup, doc = "o", ["o = %s" % pyref.literal(o)], "{}"
            elif via == "$":
                recv, setup, doc = "$", [], json.dumps(o, ensure_ascii=False)
            else:
                recv, setup, doc = "$.o", [], json.dumps({"o": o}, ensure_ascii=False)
            objs = {recv: dict(o)}
            order = [recv]
            prog = list(setup)
            out = []

            def pick_keys(src):
                ks = []
                for _ in range(rng.randint(1, 4)):
                    r = rng.random()
                    if r < 0.6 and objs[src]:
                        ks.append(rng.choice(list(objs[src])))
                    elif r < 0.85 or not ks:
                        ks.append(rng.choice(keys_pool))
                    else:
                        ks.append(rng.choice(ks))
                return ks

            def do_pluck(name, src):
                ks = pick_keys(src)
                prog.append("%s = %s.pluck(%s)" % (name, src, ", ".join(pyref.literal(kk) for kk in ks)))
                objs[name] = {kk: objs[src].get(kk) for kk in ks}
                if name not in order:
                    order.append(name)

            def show(tag):
                prog.append('print "%s", %s' % (tag, ", ".join(order)))
                out.append(tag + " " + " ".join(pyref.pretty(objs[nm]) for nm in order))

            do_pluck("p", recv)
            show("s0")
            for step in range(1, rng.randint(3, 8)):
                r = rng.random()
                if r < 0.12:
                    do_pluck("q", rng.choice([x for x in order if x != "q"]))
                elif r < 0.2 and "q" in order:
                    do_pluck("p", rng.choice([recv, "q"]))       # p is bound to a fresh pluck; the old one is gone
                else:
                    # the interesting stores hit a key that two of the objects have in common
                    name = rng.choice(order)
                    shared = [kk for kk in objs[name] if sum(1 for nm in order if kk in objs[nm]) > 1]
                    kk = rng.choice(shared) if shared and rng.random() < 0.75 else rng.choice(list(objs[name]) + keys_pool[:6])
                    target = "%s.%s" % (name, kk) if ident.match(kk) and rng.random() < 0.8 else "%s[%s]" % (name, pyref.literal(kk))
                    cur = objs[name].get(kk)
                    m = rng.random()
                    if isinstance(cur, float) and not isinstance(cur, bool) and m < 0.35:
                        if m < 0.12:
                            prog.append("%s++" % target)
                            objs[name][kk] = cur + 1.0
                        elif m < 0.2:
                            prog.append("%s--" % target)
                            objs[name][kk] = cur - 1.0
                        else:
                            d = float(rng.choice([2, 10, -1, 0.5]))
                            prog.append("%s += %s" % (target, pyref.literal(d)))
                            objs[name][kk] = cur + d
                    else:
                        v = V.value(rng, 1, False, 0.25)
                        if v == cur and type(v) == type(cur):
                            v = 100.0 + step
                        prog.append("%s = %s" % (target, pyref.literal(v)))
                        objs[name][kk] = v
                show("s%d" % step)
            text = "{ " + "\n ".join(prog) + " }"
            meta = {"fam": "pluckind", "prog": text, "doc": doc, "want": "".join(l + "\n" for l in out)}
            cases.append(Case(cid, simple_run(cid, text, [doc]), meta, True, ["pluckind"]))

    def gen_numforms(self, rng, n, cases):
        """every spelling some number parser accepts: base prefixes, digit separators, signs, the words inf/nan, padding,
        exponent forms, hexadecimal floats -- one string per case (the model leaves 0x spellings to the oracle)"""
        signs = ["", "", "+", "-", "+-", "--", "- ", "++"]
        prefixes = ["", "", "0x", "0X", "0o", "0O", "0b", "0B", "0", "00", "0_", "0x_", "0X_", "0b_", "0o_", "0d", "x", "#", "0x0x", "&h", "$", "0h", "1x", "0x-", "0b-"]
        mants = ["0", "1", "7", "10", "11", "17", "101", "ff", "FF", "1f", "dead", "1e", "e1", "777", "089", "12", "1_0", "1_000", "1__0", "_1", "1_", "f_f", "1.8", ".8", "1.",
                 "1._8", "1_.8", "1_0.0_1", "", ".", "_", "1.8.1", "1,8", "g", "0.1", "7fffffffffffffff", "8000000000000000", "ffffffffffffffff", "1" * 64, "9" * 19]
        exps = ["", "", "", "e1", "E1", "e+1", "e-1", "p1", "P-1", "p+4", "p0", "e", "p", "e1_0", "p1_0", "e_1", "p_1", "e1_", "p1_", "e1.5", "p1.5", "e0x1", "p0x1", "ee1", "pp1",
                "e+", "p-", "e1e1", "p1p1", "e١", "p99999", "p-99999", "e400", "e-400"]
        pads = [("", "")] * 8 + [(" ", ""), ("", " "), (" ", " "), ("\t", ""), ("", "\t"), ("\n", ""), ("", "\n"), ("", "\r"), ("\u00a0", ""), ("", "\u00a0"), ("", "\x00"), ("\x00", ""),
                                 ("\ufeff", ""), ("", "f"), ("", "d"), ("", "L"), ("", "n"), ("", "i"), ("", "%"), ("", "u"), ("(", ")"), ("", "."), ("", ","), ("\v", ""), ("", "\f")]
        words = ["inf", "Inf", "INF", "iNf", "infinity", "Infinity", "INFINITY", "InFiNiTy", "infinit", "infinityx", "infinitys", "in", "i", "infi", "inff", "+inf", "-inf", "+Inf",
                 "-Inf", "-Infinity", "+Infinity", "+INFINITY", "--inf", "+-inf", "- inf", "inf ", " inf", "nan", "NaN", "NAN", "nAn", "Nan", "+nan", "-nan", "+NaN", "-NaN", "nan(1)",
                 "nan()", "nanx", "na", "n", "nan ", " nan", "snan", "qnan", "NaNQ", "1inf", "infe1", "inf1", "0xinf", "0xnan", "1nan", "nane1", "∞", "-∞", "+∞", "1.#INF", "1.#QNAN",
                 "Infinity.0", "infinity_", "in_f", "n_an", "e", "E", "p", "+e1", ".e1", "0e", "0e0", "0E-0", "-0e0", "0x0p0", "-0x0p-0", "0x1p-2", "0X1P+2", "0x1.8p1", "0x.8p1",
                 "0x1.p1", "0x.p1", "0xp1", "0x_1p1", "0x1_0p1", "0x1p1_0", "0x1p_1", "0x1_p1", "-0x_fp0", "0x1p1024", "0x1p1023", "0x1.fffffffffffffp1023", "0x1.fffffffffffff8p1023",
                 "0x1p-1074", "0x1p-1075", "0x1.8p-1075", "0x10", "0b11", "-0o17", "0x_ff", "0X1F", "+0b1", "0o7_7", "0b1_0", "017", "0_17", "-0x8000000000000000", "0x7fffffffffffffff",
                 "0x8000000000000000", "0b" + "1" * 63, "0b" + "1" * 64, "0o777777777777777777777", "0o1777777777777777777777", "1_000", "1_0.5e1_0", "1__0", "_1", "1_", "1_.5", "1._5",
                 "1e_5", "1e5_", "+_1", "-_1", "0_0", "0_x1", "1'000", "1 000", "1,000", "1.000,5", "١٢", "１２", "1e１", "½", "²", "0x1P", "0x1e1", "0x1e+1", "0b1e1", "0o1e1", "0b1p1",
                 "0o1p1", "0b1.1", "0o1.1", "0b2", "0o8", "0xg", "0x", "0b", "0o", "0X", "-0x", "+0b", "0x.", "0b_", "1f", "1d", "1L", "1.0f", "1e1f", "1n", "1u", "1i", "1%", "$1", "#1",
                 "1/2", "1+1", "(1)", "1-", "1+", "+1+", "- 1", "+ 1", "1 .5", "1. 5", "1 e5", "1e 5", "true", "false", "null", "one", "0xfff_", "0x__f"]
        pool = list(words)
        seen = set(pool)
        tries = 0
        while len(pool) < n and tries < 50 * n:
            tries += 1
            a, b = rng.choice(pads)
            st = a + rng.choice(signs) + rng.choice(prefixes) + rng.choice(mants) + rng.choice(exps) + b
            if st not in seen:
                seen.add(st)
                pool.append(st)
        for k, st in enumerate(pool):
            cid = "nf%d" % k
            if k % 3 == 0 and st.isascii() and not any(c in st for c in "\"'\\") and all(32 <= ord(c) < 127 for c in st):
                prog, doc = "{ print num(%s) }" % pyref.literal(st), "{}"
            else:
                prog, doc = "{ print num($.s) }", json.dumps({"s": st}, ensure_ascii=bool(k % 2))
            meta = {"fam": "numforms", "prog": prog, "doc": doc, "s": st}
            cases.append(Case(cid, simple_run(cid, prog, [doc]), meta, goparsefloat.parse(st) is not None, ["numforms"]))

    def gen_coerce(self, rng, n, cases):
        """the same strings through the operators' numeric coercion (DESIGN 3.2: ParseFloat if it succeeds, else 0)"""
        for k in range(n):
            cid = "co%d" % k
            s = DIGIT_FIXED[k] if k < len(DIGIT_FIXED) else (digit_string(rng) if rng.random() < 0.8 else rng.choice(NUM_STRS))
            if parse_num(s) is None and re.search(r"[_xXpP]", s):
                s = "abc"
            prog = "{ print $.s * 1, $.s - 0, -$.s, $.s > 0, $.s < 10000000000000000000, $.s == 9223372036854775807 }"
            doc = json.dumps({"s": s}, ensure_ascii=False)
            cases.append(Case(cid, simple_run(cid, prog, [doc]), {"fam": "coerce", "prog": prog, "doc": doc, "s": s}, True))

    def gen_nocrash(self, rng, n, cases):
        k = 0
        combos = [(r, m) for r in RECEIVERS for m in METHODS]
        rng.shuffle(combos)
        while k < n:
            cid = "nc%d" % k
            if k < len(combos) and n >= len(combos):
                recv, m = combos[k]
            elif rng.random() < 0.5:
                recv, m = rng.choice(RECEIVERS), rng.choice(METHODS)
            else:
                # the method exists on this receiver: the argument list is what varies
                recv, ms = rng.choice(COMPATIBLE)
                recv, m = rng.choice(recv), rng.choice(ms)
            nargs = rng.choice([0, 0, 1, 1, 2, 3])
            args = ", ".join(rng.choice(ARGS) for _ in range(nargs))
            form = rng.random()
            head = 'function say(a) { return a }\n{ print "A"\n '
            if form < 0.75:
                prog = head + "print %s.%s(%s)" % (recv, m, args)
            elif form < 0.9:
                fn = rng.choice(["num", "json"])
                allargs = [] if rng.random() < 0.2 else [recv] + ([args] if args else [])
                prog = head + "print %s(%s)" % (fn, ", ".join(allargs))
            else:
                prog = head + "x = %s\n print x.%s(%s)" % (recv, m, args)
            prog += '\n print "Z" }'
            doc = '{"s": "a,b", "n": 2.5, "l": [1, 2], "o": {"k": 1}}'
            meta = {"fam": "nocrash", "prog": prog, "doc": doc}
            cases.append(Case(cid, simple_run(cid, prog, [doc]), meta, True))
            k += 1

    def gen_rebind(self, rng, n, cases):
        """the receiver VARIABLE (or member / element) is rebound to a value of another kind while the arguments of the method call are
        evaluated: the method then runs on a receiver it was not looked up for. Every method of every prototype x every replacement kind
        x every way of rebinding: neutral value or runtime error, never a crash (the model says which)"""
        NATURAL = {"length": ['"abc"', "[1, 2]", "{a: 1}"], "split": ['"a,b"'], "lower": ['"aBc"'], "upper": ['"aBc"'],
                   "floor": ["2.5", "(-2.5)"], "ceil": ["2.5"], "round": ["2.5", "(-0.5)"],
                   "push": ["[1, 2]"], "pop": ["[1, 2]"], "popfirst": ["[1, 2]"], "contains": ["[1, 2]"], "sort": ["[2, 1]"], "pluck": ["{a: 1, b: 2}"]}
        REPL = ['"2.5"', '""', "5", "(-2.5)", "true", "false", "null", "[1]", "[]", "{a: 1}", "{}", "/re/", "say", "unset_var", '"é,x"', "[[1], 2]"]
        OTHER = ['"abc"', "2.5", "[1, 2]", "{a: 1}", "true", "null"]
        EXTRA = ["1", '"a"', '","', "null", "[1]"]
        combos = [(m, r) for m in METHODS for r in REPL]
        rng.shuffle(combos)
        for k in range(n):
            cid = "rb%d" % k
            m, repl = combos[k % len(combos)]
            recv = rng.choice(NATURAL[m]) if (k < len(combos) or rng.random() < 0.7) else rng.choice(OTHER)
            place = rng.choice(["x", "x", "x", "o.k", "a[0]", "$.v", "o.p.q", "a[1][0]"])
            setup = {"x": "x = %s", "o.k": "o = {k: %s}", "a[0]": "a = [%s]", "$.v": "$.v = %s", "o.p.q": "o = {p: {q: %s}}",
                     "a[1][0]": "a = [0, [%s]]"}[place] % recv
            form = rng.randrange(8)
            if form == 0:
                args = "%s = %s" % (place, repl)
            elif form == 1:
                args = "%s, %s = %s" % (rng.choice(EXTRA), place, repl)
            elif form == 2:
                args = "%s = %s, %s" % (place, repl, rng.choice(EXTRA))
            elif form == 3:
                args = "rebind(%s)" % repl                        # through a function that assigns the global / the document
                place, setup = ("x", "x = %s" % recv) if place not in ("x", "$.v") else (place, setup)
            elif form == 4:
                args = "(%s = %s) == 1" % (place, repl)
            elif form == 5:
                args = "[%s = %s]" % (place, repl)
            elif form == 6:
                args = "%s = %s, %s = %s" % (place, rng.choice(REPL), place, repl)
            else:
                args = "say(%s = %s)" % (place, repl)
            rb = "function rebind(v) { %s = v; return 1 }\n" % ("$.v" if place == "$.v" else "x")
            prog = ('function say(a) { return a }\n' + rb + '{ print "A"\n %s\n print %s.%s(%s)\n print %s\n print "Z" }' % (setup, place, m, args, place))
            doc = '{"s": "a,b", "n": 2.5, "l": [1, 2], "o": {"k": 1}}'
            meta = {"fam": "nocrash", "prog": prog, "doc": doc, "what": "receiver %s = %s rebound to %s inside the arguments of .%s()" % (place, recv, repl, m)}
            cases.append(Case(cid, simple_run(cid, prog, [doc]), meta, True, ["rebind"]))

    def generate(self, rng, tier):
        q = tier == "quick"
        cases = []
        self.gen_split(rng, 320 if q else 12000, cases)
        self.gen_case(rng, 100 if q else 3000, cases)
        self.gen_round(rng, 260 if q else 12000, cases)
        self.gen_pluck(rng, 160 if q else 6000, cases)
        self.gen_num(rng, 420 if q else 14000, cases)
        self.gen_pluck_indep(rng, 200 if q else 6000, cases)
        self.gen_numforms(rng, 900 if q else 12000, cases)
        self.gen_coerce(rng, 120 if q else 3000, cases)
        self.gen_nocrash(rng, 450 if q else 16000, cases)
        self.gen_rebind(rng, 420 if q else 6000, cases)
        return cases

    # ------------------------------------------------------------ oracle
    def oracle(self, case, impl):
        m = case.meta
        fam = m.get("fam")
        if fam is None or impl.outcome in ("timeout", "noresult", "badcase"):
            return None
        if impl.outcome not in ("ok", "runtime"):
            return "run ended in %r: neither a value nor a runtime error" % impl.outcome
        if fam == "nocrash":
            if not impl.stdout.startswith(b"A\n"):
                return "output before the call is missing"
            return None
        if impl.outcome != "ok":
            return "documented call ended in a runtime error"
        out = impl.stdout
        lines = out.split(b"\n")
        if lines[-1] != b"":
            return "output does not end with a newline"
        lines = lines[:-1]
        if fam == "split":
            s, sep = bytes.fromhex(m["s_hex"]), bytes.fromhex(m["sep_hex"])
            try:
                cnt = int(lines[0])
            except ValueError:
                return "piece count is not an integer: %r" % lines[0]
            body = lines[1:1 + cnt]
            if len(lines) != cnt + 2 or any(not (l.startswith(b"<") and l.endswith(b">")) for l in body):
                return "length() of the result (%d) does not match the pieces printed: %r" % (cnt, lines)
            pieces = [l[1:-1] for l in body]
            if sep.join(pieces) != s:
                return "joining the pieces %r with %r gives %r, not the receiver %r" % (pieces, sep, sep.join(pieces), s)
            if sep and any(sep in p for p in pieces):
                return "a piece of %r contains the separator %r" % (pieces, sep)
            if not sep:
                try:
                    want = [c.encode() for c in s.decode("utf-8")]
                    if pieces != want:
                        return "empty separator: pieces %r are not the characters %r" % (pieces, want)
                except UnicodeDecodeError:
                    if any(len(p) == 0 or len(p) > 4 for p in pieces):
                        return "empty separator: a piece is empty or longer than a character: %r" % pieces
            if lines[-1] != b"len %d %d" % (len(s), len(sep)):
                return "length() is not the byte count: %r for %r / %r" % (lines[-1], s, sep)
            return None
        if fam == "case":
            s = m["s"].encode()
            if len(lines) != 4:
                return "expected 4 output lines, got %r" % lines
            up, lo, orig = lines[0], lines[1], lines[2]
            if orig != s:
                return "receiver changed by upper/lower: %r" % orig
            if all(c < 0x80 for c in s):
                if up != m["s"].upper().encode() or lo != m["s"].lower().encode():
                    return "upper/lower of %r gave %r / %r" % (m["s"], up, lo)
                if lines[3] != b"%d %d" % (len(s), len(s)):
                    return "length of the upper-cased copy differs: %r" % lines[3]
            else:
                if ascii_nonletters(up) != ascii_nonletters(s) or ascii_nonletters(lo) != ascii_nonletters(s):
                    return "upper/lower changed a non-letter byte of %r: %r / %r" % (m["s"], up, lo)
            return None
        if fam == "round":
            x = float(m["x"])
            want = "%s %s %s\n%s\n" % (pyref.fmt_f(ref_floor(x)), pyref.fmt_f(ref_ceil(x)), pyref.fmt_f(ref_round(x)), pyref.fmt_f(x))
            if out.decode() != want:
                return "floor/ceil/round of %r: documented %r, implementation %r" % (x, want, out.decode())
            return None
        if fam == "pluck":
            o, keys = V.unjsonable(m["o"]), m["keys"]
            want_p = {k: o.get(k) for k in keys}
            counts = "%d %d" % (len(want_p), len(o)) if m.get("plen", True) else "%d" % len(o)
            want = "%s\n%s\n%s\n%s\n" % (pyref.pretty(want_p), pyref.pretty(o), counts, pyref.pretty(o))
            if out.decode() != want:
                return "pluck(%r) of %s: documented %r, implementation %r" % (keys, pyref.pretty(o), want, out.decode())
            return None
        if fam == "pluckind":
            if out.decode("utf-8", "replace") != m["want"]:
                w, g = m["want"].splitlines(), out.decode("utf-8", "replace").splitlines()
                i = next((i for i in range(max(len(w), len(g))) if i >= len(w) or i >= len(g) or w[i] != g[i]), 0)
                return ("pluck result and original are not independent: output line %d documented %r, implementation %r"
                        % (i + 1, w[i] if i < len(w) else "<nothing>", g[i] if i < len(g) else "<nothing>"))
            return None
        if fam == "numforms":
            x = goparsefloat.parse(m["s"])
            want = ("null" if x is None else pyref.fmt_f(x)) + "\n"
            if out.decode() != want:
                return "num(%r): documented %r (%s), implementation %r" % (m["s"], want, "a floating-point numeral" if x is not None else "not a floating-point numeral", out.decode())
            return None
        if fam == "num":
            x = parse_num(m["s"])
            want = ("null" if x is None else pyref.fmt_f(x)) + "\n"
            if out.decode() != want:
                return "num(%r): documented %r, implementation %r" % (m["s"], want, out.decode())
            return None
        if fam == "coerce":
            sv = m["s"] if m["s"].isascii() else "x"
            vals = [pyref.binop("*", sv, 1.0), pyref.binop("-", sv, 0.0), -pyref.num(sv), pyref.binop(">", sv, 0.0),
                    pyref.binop("<", sv, 1e19), pyref.binop("==", sv, 9223372036854775807.0)]
            want = " ".join(pyref.pretty(v) for v in vals) + "\n"
            if out.decode() != want:
                return "numeric coercion of the string %r: documented %r, implementation %r" % (m["s"], want, out.decode())
            return None
        if fam == "numkind":
            if out.decode() != m["want"] + "\n":
                return "%s: documented %r, implementation %r" % (m["prog"], m["want"], out.decode())
            return None
        return None


CHECK = C16()
