"""C17: print renders every value in one well-defined, terminating, re-readable format."""
import json, math, re, subprocess
from framework import Check, Case
from jqlib import simple_run, hx, unhx, JQAWK
import pyref
import valgen as V

MARK = "<circular reference>"
NUM_RE = re.compile(r"-?[0-9]+(\.[0-9]+)?\Z")

HARD = [2.0 ** 53 - 1, 2.0 ** 53, 2.0 ** 53 + 2, 9007199254740993.0, -(2.0 ** 53) - 2, 1e21, 1e22, 1e23, 5e-324, -5e-324, 0.1 + 0.2, 1 / 3,
        123456789012345680000.0, 0.0, -0.0, 1.0, -1.0, 0.1, 0.5, 1e-7, 1e-6, 1e-5, 123456.789, 1e15, 1e16, 1e17, 1.7976931348623157e308,
        2.2250738585072014e-308, 2.225073858507201e-308, 4.35, 0.000001, 100.0, 1e100, 2.5e-10, 9.999999999999999e22, 1e300,
        4503599627370496.5, 0.30000000000000004, 2 / 3, 1e-320, 18446744073709551616.0, 9223372036854775807.0, 3.141592653589793]
STR_SAFE = ["", "a", "abc", "10", " 1", "é", "x y", "true", "null", "日本", "a,b", "[1]", "{k}", "<circular reference>", "-0"]
KEYS = ["k", "a", "zz", "id", "b", "B", "é", "10", "9", "key two"]
OKEYS = ["k", "a", "zz", "id", "b", "up", "nxt", "me"]      # identifier keys for programs (never a method name)


def render(v, path=(), quote=False):
    """the documented rendering on a possibly shared / cyclic Python structure: a container that is its own
    ancestor is the marker, everything else is printed in full"""
    if isinstance(v, (list, dict)):
        if any(p is v for p in path):
            return MARK
        if isinstance(v, list):
            return "[" + ", ".join(render(x, path + (v,), True) for x in v) + "]"
        return "{" + ", ".join('"%s": %s' % (k, render(v[k], path + (v,), True)) for k in sorted(v, key=lambda s: s.encode())) + "}"
    return pyref.pretty(v, quote)


def norm(v):
    if isinstance(v, bool) or v is None or isinstance(v, str):
        return v
    if isinstance(v, (int, float)):
        return float(v)
    if isinstance(v, list):
        return [norm(x) for x in v]
    return {k: norm(x) for k, x in v.items()}


def depth(v):
    if isinstance(v, list):
        return 1 + max([depth(x) for x in v] + [0])
    if isinstance(v, dict):
        return 1 + max([depth(x) for x in v.values()] + [0])
    return 0


def tree(rng, d, numbers):
    """an escape-free JSON value"""
    k = rng.random()
    if d > 0 and k < 0.55:
        if rng.random() < 0.55:
            return [tree(rng, d - 1, numbers) for _ in range(rng.choice([0, 1, 1, 2, 3, 4]))]
        return {rng.choice(KEYS): tree(rng, d - 1, numbers) for _ in range(rng.choice([0, 1, 2, 3]))}
    k = rng.random()
    if k < 0.4:
        return rng.choice(numbers) if rng.random() < 0.7 else V.rand_finite(rng)
    if k < 0.7:
        return rng.choice(STR_SAFE)
    return rng.choice([True, False, None])


def lit_num(x):
    """decimal source text of a non-negative double the lexer accepts (no exponent)"""
    return pyref.fmt_f(x)


class C17(Check):
    pid = "C17"
    props = V.existing_props(["C17_print.v"])
    timeout_is_violation = True     # "rendering always terminates": a case that still times out when re-run alone is a violation
    rule = ("families: doubles by random bit pattern and the classic hard cases, read from documents and computed by programs, at top "
            "level and nested (text matches -?[0-9]+(.[0-9]+)? and reads back bit-identical); print with 1-5 arguments of every kind; "
            "bare print / body-less rule / print $ on scalar, string, object and array documents; nested documents up to depth 6 with "
            "empty containers (exact text and json.loads(text) == document); strings with quotes, backslashes and newlines raw at top "
            "level; shared sub-structures without a cycle (same container twice, diamonds, sibling and descendant) printed in full; "
            "cycles of length 1-4 through arrays (element stores), objects and mixtures, entered at every node and through slots: marker "
            "exactly at the recurrence, run terminates; print statements whose first / middle / last argument fails (nothing of the statement "
            "is written) or whose arguments write themselves through printing functions (their output precedes the line), in BEGIN and per "
            "record; print / printf executed inside root selectors (block bodies of match cases, printf calls, nested in array literals, "
            "before a fault or an exit; 1-4 selectors, 1-3 input values, four rule programs) as RUN cases, through EvalExpression and on the "
            "binary with -r: selector output first, per value, in selector order, then the rules on every selected root. "
            "non-trivial = container depth >= 2 or a number with >= 16 significant digits")

    # ------------------------------------------------------------ numbers
    def gen_num(self, rng, n, cases):
        for k in range(n):
            cid = "n%d" % k
            x = HARD[k] if k < len(HARD) else (V.rand_finite(rng) if rng.random() < 0.8 else
                                              float(rng.randint(2 ** 52, 2 ** 64)) * rng.choice([1, -1]))
            form = k % 6
            doc = repr(x)
            if form == 0:
                prog, doc, wrap = "{ print $.x }", '{"x": %s}' % repr(x), "%s"
            elif form == 1:
                prog, wrap = "{ print }", "%s"
            elif form == 2:
                prog, wrap = "1", "%s"
            elif form == 3:
                prog, wrap = "{ print [$, [$]] }", "[%s, [%s]]"
            elif form == 4:
                prog, wrap = "{ print {v: $} }", '{"v": %s}'
            else:
                prog, wrap = '{ print "x", $, $ }', "x %s %s"
            meta = {"fam": "num", "prog": prog, "doc": doc, "x": repr(x), "wrap": wrap}
            cases.append(Case(cid, simple_run(cid, prog, [doc]), meta, len(repr(x).split("e")[0].replace(".", "").replace("-", "").strip("0")) >= 16))

    def gen_arith(self, rng, n, cases):
        pool = [0.1, 0.2, 0.3, 1.0, 3.0, 7.0, 10.0, 1e21, 1e22, 4503599627370496.0, 9007199254740992.0, 2.5, 1e-7, 123456789.0,
                0.7, 1.1, 1e15, 33.0, 1e10, 1e-10, 6.02e23]
        fixed = [(0.1, "+", 0.2), (1.0, "/", 3.0), (2.0, "/", 3.0), (9007199254740992.0, "+", 1.0), (9007199254740992.0, "+", 2.0),
                 (1e21, "*", 10.0), (1.1, "*", 1.1), (0.1, "*", 3.0), (1.0, "/", 1e22), (1e22, "+", 1e6), (0.0, "-", 0.0), (0.0, "*", 7.0)]
        for k in range(n):
            cid = "ar%d" % k
            if k < len(fixed):
                a, op, b = fixed[k]
            else:
                a, op, b = rng.choice(pool), rng.choice("+-*/"), rng.choice(pool)
                if rng.random() < 0.3:
                    a = round(rng.uniform(0, 1000), rng.randint(0, 6))
            try:
                x = {"+": a + b, "-": a - b, "*": a * b, "/": a / b}[op]
            except (ZeroDivisionError, OverflowError):
                continue
            if math.isinf(x) or math.isnan(x):
                continue
            prog = "BEGIN { print %s %s %s }" % (lit_num(a), op, lit_num(b))
            meta = {"fam": "num", "prog": prog, "doc": "", "x": repr(x), "wrap": "%s"}
            cases.append(Case(cid, simple_run(cid, prog), meta, len(repr(x).replace(".", "").replace("-", "").strip("0")) >= 16))

    # ------------------------------------------------------------ print a, b, c / bare print
    def gen_args(self, rng, n, cases):
        for k in range(n):
            cid = "pa%d" % k
            vals = [V.value(rng, 2, False, 0.35) for _ in range(rng.randint(1, 5))]
            prog = "BEGIN { print %s }" % ", ".join(pyref.literal(v) for v in vals)
            want = " ".join(pyref.pretty(v) for v in vals) + "\n"
            meta = {"fam": "exact", "prog": prog, "doc": "", "want": want}
            cases.append(Case(cid, simple_run(cid, prog), meta, any(depth(v) >= 2 for v in vals)))

    def gen_bare(self, rng, n, cases):
        for k in range(n):
            cid = "pb%d" % k
            d = tree(rng, rng.choice([0, 1, 2, 3]), HARD[:20])
            if k % 4 == 0:
                d = [tree(rng, 2, HARD[:20]) for _ in range(rng.randint(0, 4))]
            prog = rng.choice(["{ print }", "{ print $ }", "1", "true", "{ print\n }", '"x"'])
            elems = d if isinstance(d, list) else [d]
            want = "".join(pyref.pretty(e) + "\n" for e in elems)
            meta = {"fam": "exact", "prog": prog, "doc": V.to_json(d), "want": want}
            cases.append(Case(cid, simple_run(cid, prog, [V.to_json(d)]), meta, depth(d) >= 2))

    # ------------------------------------------------------------ containers are JSON
    def gen_json(self, rng, n, cases):
        for k in range(n):
            cid = "js%d" % k
            dmax = rng.choice([1, 2, 3, 4, 6])
            v = tree(rng, dmax, HARD)
            if not isinstance(v, (list, dict)):
                v = [v, {}, []]
            if rng.random() < 0.08:
                # wide: more members than any small-size special case of a sort / a buffer would cover
                wk = ["k%d" % i for i in range(30)] + ["a", "B", "b", "a1", "a10", "a2", "A", "Z", "z", "aa", "é", "日", "k", "K"]
                rng.shuffle(wk)
                wide = {kk: tree(rng, 1, HARD[:12]) for kk in wk[:rng.randint(13, 40)]}
                v = wide if rng.random() < 0.6 else [wide, [tree(rng, 0, HARD) for _ in range(rng.randint(13, 60))]]
            if k % 3 == 0:
                prog, doc = "BEGIN { v = %s\n print v }" % pyref.literal(v), ""
                if not literal_ok(v):
                    prog, doc = "{ print $.v }", V.to_json({"v": v})
            elif k % 3 == 1:
                prog, doc = "{ print $.v }", V.to_json({"v": v})
            else:
                prog, doc = "{ print }", V.to_json({"v": v, "w": [v]})
                v = {"v": v, "w": [v]}
            meta = {"fam": "json", "prog": prog, "doc": doc, "value": V.to_json(v)}
            cases.append(Case(cid, simple_run(cid, prog, [doc] if doc else []), meta, depth(v) >= 2))

    def gen_strings(self, rng, n, cases):
        alpha = ["a", '"', "\\", "\n", "\t", "é", " ", "'", "{", "]", ",", "日", "\\n", "\r", "\x01", "€"]
        for k in range(n):
            cid = "st%d" % k
            s = "".join(rng.choice(alpha) for _ in range(rng.randint(0, 8)))
            prog = rng.choice(["{ print $.s }", '{ print $.s, "|", $.s }'])
            want = (s if "|" not in prog else s + " | " + s) + "\n"
            doc = json.dumps({"s": s}, ensure_ascii=bool(k % 2))
            meta = {"fam": "exact", "prog": prog, "doc": doc, "want": want}
            cases.append(Case(cid, simple_run(cid, prog, [doc]), meta, False))

    # ------------------------------------------------------------ sharing without a cycle
    def gen_shared(self, rng, n, cases):
        for k in range(n):
            cid = "sh%d" % k
            nodes, lines = [], []
            nn = rng.randint(2, 6)
            for i in range(nn):
                def ref():
                    if nodes and rng.random() < 0.65:
                        j = rng.randrange(len(nodes))
                        return "c%d" % j, nodes[j]
                    v = V.scalar(rng, False) if rng.random() < 0.8 else rng.choice([[], {}, [[]], [1, [2]]])
                    return pyref.literal(v), v
                if rng.random() < 0.6:
                    parts = [ref() for _ in range(rng.randint(0 if i else 1, 4))]
                    if i and rng.random() < 0.4 and nodes:
                        j = rng.randrange(len(nodes))
                        parts.append(("[c%d]" % j, [nodes[j]]))       # the same container as sibling and as descendant
                    lines.append("c%d = [%s]" % (i, ", ".join(p[0] for p in parts)))
                    nodes.append([p[1] for p in parts])
                else:
                    ks = rng.sample(OKEYS, rng.randint(0 if i else 1, 3))
                    parts = [(kk, ref()) for kk in ks]
                    lines.append("c%d = {%s}" % (i, ", ".join("%s: %s" % (kk, p[0]) for kk, p in parts)))
                    nodes.append({kk: p[1] for kk, p in parts})
            want = []
            order = list(range(nn))
            rng.shuffle(order)
            for i in order[:3] + [nn - 1]:
                lines.append("print c%d" % i)
                want.append(render(nodes[i]))
            lines.append("print c%d, c0" % (nn - 1))
            want.append(render(nodes[-1]) + " " + render(nodes[0]))
            if k % 5 == 0:
                # sharing inside the document
                lines = ["$.b = $.a", "$.c = [$.a, $.b, {k: $.a}]", "print", "print $.c"]
                a = tree(rng, 2, HARD[:10])
                docv = {"a": a, "z": 1}
                full = {"a": a, "b": a, "c": [a, a, {"k": a}], "z": 1.0}
                want = [render(full), render(full["c"])]
                prog = "{ " + "\n ".join(lines) + " }"
                meta = {"fam": "exact", "prog": prog, "doc": V.to_json(docv), "want": "".join(w + "\n" for w in want)}
                cases.append(Case(cid, simple_run(cid, prog, [V.to_json(docv)]), meta, True))
                continue
            prog = "BEGIN { " + "\n ".join(lines) + " }"
            meta = {"fam": "exact", "prog": prog, "doc": "", "want": "".join(w + "\n" for w in want)}
            cases.append(Case(cid, simple_run(cid, prog), meta, True, ["shared"]))

    # ------------------------------------------------------------ windows: names bound to one array and then shortened by pop /
    # popfirst share storage but differ in length; several of them inside ONE printed container are each rendered in full
    def gen_windows(self, rng, n, cases):
        for k in range(n):
            base = [V.scalar(rng, False) for _ in range(rng.randint(3, 7))]
            lines = ["x0 = %s" % pyref.literal(base)]
            wins = [(0, len(base))]
            for j in range(1, rng.randint(2, 4)):
                src = rng.randrange(j)
                lo, hi = wins[src]
                lines.append("x%d = x%d" % (j, src))
                for _ in range(rng.randint(1, 3)):
                    if hi - lo <= 0:
                        break
                    if rng.random() < 0.5:
                        lines.append("x%d.pop()" % j)
                        hi -= 1
                    else:
                        lines.append("x%d.popfirst()" % j)
                        lo += 1
                wins.append((lo, hi))
            vals = [base[lo:hi] for lo, hi in wins]
            want = []
            for _ in range(3):
                order = [rng.randrange(len(wins)) for _ in range(rng.randint(2, 4))]
                shape = rng.choice(["arr", "obj", "nest"])
                if shape == "arr":
                    lines.append("print [%s]" % ", ".join("x%d" % j for j in order))
                    want.append(render([vals[j] for j in order]))
                elif shape == "obj":
                    ks = ["k%d" % i for i in range(len(order))]
                    lines.append("print {%s}" % ", ".join("%s: x%d" % (kk, j) for kk, j in zip(ks, order)))
                    want.append(render({kk: vals[j] for kk, j in zip(ks, order)}))
                else:
                    lines.append("print [%s], %s" % (", ".join("[x%d]" % j for j in order), "x%d" % order[0]))
                    want.append(render([[vals[j]] for j in order]) + " " + render(vals[order[0]]))
            prog = "BEGIN { " + "\n ".join(lines) + " }"
            cid = "wn%d" % k
            meta = {"fam": "exact", "prog": prog, "doc": "", "want": "".join(w + "\n" for w in want)}
            cases.append(Case(cid, simple_run(cid, prog), meta, True, ["windows"]))

    # ------------------------------------------------------------ cycles
    def gen_cycle(self, rng, n, cases):
        for k in range(n):
            cid = "cy%d" % k
            if k % 9 == 3 and k >= 16:
                self.deep_chain(rng, cid, cases)
                continue
            clen = k % 4 + 1 if k < 16 else rng.randint(1, 4)
            nn = rng.randint(clen, 5)
            kinds = [rng.choice("ao") for _ in range(nn)]
            if k % 7 == 1:
                kinds = ["a"] * nn
            if k % 7 == 2:
                kinds = ["o"] * nn
            nodes, create, slots = [], [], []
            for i in range(nn):
                if kinds[i] == "a":
                    ln = rng.randint(1, 4)
                    nodes.append([None] * ln)
                    create.append("c%d = [%s]" % (i, ", ".join(["null"] * ln)))
                    slots.append(list(range(ln)))
                else:
                    nodes.append({})
                    create.append("c%d = {}" % i)
                    slots.append(rng.sample(OKEYS, rng.randint(1, 3)))
            wires = []          # (node, slot, target node or scalar)
            used = set()

            def free_slot(i):
                cand = [s for s in slots[i] if (i, s) not in used]
                return rng.choice(cand) if cand else None

            for i in range(clen):
                s = free_slot(i)
                used.add((i, s))
                wires.append((i, s, ("node", (i + 1) % clen)))
            for i in range(nn):
                for s in slots[i]:
                    if (i, s) in used:
                        continue
                    used.add((i, s))
                    r = rng.random()
                    if r < 0.35:
                        wires.append((i, s, ("node", rng.randrange(nn))))
                    elif r < 0.45:
                        wires.append((i, s, ("fresh", rng.choice([[], {}, [1], {"k": "v"}]))))
                    else:
                        wires.append((i, s, ("scalar", V.scalar(rng, False))))
            rng.shuffle(wires)
            lines = list(create)
            for i, s, (what, t) in wires:
                lhs = "c%d[%d]" % (i, s) if kinds[i] == "a" else "c%d.%s" % (i, s)
                if what == "node":
                    lines.append("%s = c%d" % (lhs, t))
                    nodes[i][s] = nodes[t]
                else:
                    lines.append("%s = %s" % (lhs, pyref.literal(t)))
                    nodes[i][s] = V.clone(t)
            want = []
            for i in range(nn):
                lines.append("print c%d" % i)
                want.append(render(nodes[i]))
            lines.append("print c0, c%d" % (nn - 1))
            want.append(render(nodes[0]) + " " + render(nodes[nn - 1]))
            for i, s, (what, t) in wires[:3]:
                lines.append("print %s" % ("c%d[%d]" % (i, s) if kinds[i] == "a" else "c%d.%s" % (i, s)))
                want.append(render(nodes[i][s]))
            if k % 6 == 5:
                # a cycle through the document
                inner = rng.choice(["$.me = $", "$.l[0] = $.l", "$.o.up = $\n $.l[1] = $.o", "$.l[0] = $\n $.o.nxt = $.l"])
                docv = {"l": [1.0, 2.0], "o": {"k": "v"}}
                d = V.clone(docv)
                if inner == "$.me = $":
                    d["me"] = d
                elif inner == "$.l[0] = $.l":
                    d["l"][0] = d["l"]
                elif inner.startswith("$.o.up"):
                    d["o"]["up"] = d
                    d["l"][1] = d["o"]
                else:
                    d["l"][0] = d
                    d["o"]["nxt"] = d["l"]
                prog = "{ %s\n print\n print $.l\n print $.o, $.l }" % inner
                want = [render(d), render(d["l"]), render(d["o"]) + " " + render(d["l"])]
                meta = {"fam": "exact", "prog": prog, "doc": V.to_json(docv), "want": "".join(w + "\n" for w in want), "cyclic": True}
                cases.append(Case(cid, simple_run(cid, prog, [V.to_json(docv)]), meta, True, ["cycle"]))
                continue
            prog = "BEGIN { " + "\n ".join(lines) + " }"
            meta = {"fam": "exact", "prog": prog, "doc": "", "want": "".join(w + "\n" for w in want), "cyclic": True, "cycle_length": clen}
            cases.append(Case(cid, simple_run(cid, prog), meta, True, ["cycle"]))

    def deep_chain(self, rng, cid, cases):
        """a chain of 6-40 containers, each holding the next, the last one pointing back into the chain (a cycle of any
        length entered through a long tail) or ending it (deep nesting, no cycle); a shared leaf container on the way"""
        nn = rng.randint(6, 40)
        kinds = [rng.choice("ao") for _ in range(nn)]
        nodes, lines = [], []
        leaf = [1.0, "s"]
        lines.append('leaf = [1, "s"]')
        for i in range(nn):
            if kinds[i] == "a":
                nodes.append([None, float(i)])
                lines.append("c%d = [null, %d]" % (i, i))
            else:
                nodes.append({"id": float(i)})
                lines.append("c%d = {id: %d}" % (i, i))
        order = list(range(nn - 1))
        rng.shuffle(order)
        for i in order:
            lines.append("c%d[0] = c%d" % (i, i + 1) if kinds[i] == "a" else "c%d.nxt = c%d" % (i, i + 1))
            if kinds[i] == "a":
                nodes[i][0] = nodes[i + 1]
            else:
                nodes[i]["nxt"] = nodes[i + 1]
        back = rng.choice([None, 0, rng.randrange(nn), nn - 1, max(0, nn - 5)])
        last = nn - 1
        if back is not None:
            lines.append("c%d[0] = c%d" % (last, back) if kinds[last] == "a" else "c%d.nxt = c%d" % (last, back))
        else:
            lines.append("c%d[0] = leaf" % last if kinds[last] == "a" else "c%d.nxt = leaf" % last)
        tgt = nodes[back] if back is not None else leaf
        if kinds[last] == "a":
            nodes[last][0] = tgt
        else:
            nodes[last]["nxt"] = tgt
        j = rng.randrange(nn)
        if kinds[j] == "o":
            lines.append("c%d.zleaf = leaf" % j)
            nodes[j]["zleaf"] = leaf
        want = []
        for i in [0, rng.randrange(nn), last]:
            lines.append("print c%d" % i)
            want.append(render(nodes[i]))
        prog = "BEGIN { " + "\n ".join(lines) + " }"
        meta = {"fam": "exact", "prog": prog, "doc": "", "want": "".join(w + "\n" for w in want), "cyclic": back is not None,
                "chain": nn, "back": back}
        cases.append(Case(cid, simple_run(cid, prog), meta, True, ["cycle", "deep"]))

    # ------------------------------------------------------------ arguments that fail or write while the statement is evaluated
    def gen_effects(self, rng, n, cases):
        """a print statement is ONE line: every argument is evaluated before anything of it is written, so (a) a statement whose first,
        middle or last argument fails writes nothing at all (the lines of the statements before it stay), (b) whatever the evaluation
        of an argument writes itself (a called function that prints / printfs) comes, in evaluation order, before the line"""
        FAULTS = ["1 / 0", "7 % 0", "nofn(1)", "[1] < 2", "$nope", "\"a\" ~ \"(\"", "num(1, 2)", "zero / zero", "[1, 1 / 0]", "{k: 7 % 0}",
                  "idf(1 / 0)", "(1 + nofn(2))", "-(1 / 0)", "\"s\".split()", "arr[1 / 0]", "printf(\"%d\", 1)", "obj.k.floor(1 / 0)"]
        FUNS = ("function idf(v) { return v }\n"
                "function say(v) { print \"in say\", v; return v }\n"
                "function emit(v) { printf(\"<%f>\", v); return v }\n"
                "function two(v) { print \"one\"; print \"two\", v, v; return [v] }\n")

        def scalar_arg():
            v = V.scalar(rng, False)
            return pyref.literal(v), pyref.pretty(v), ""

        def num_arg():
            x = float(rng.choice([0, 1, 2, 7, 10, 2.5, 1000000, 0.125]))
            return pyref.literal(x), x

        def arg(d=1):
            """(source text, rendering as a print argument, what its evaluation writes)"""
            r = rng.random()
            if r < 0.45:
                if rng.random() < 0.25:
                    v = V.value(rng, 2, False, 0.6)
                    return pyref.literal(v), pyref.pretty(v), ""
                return scalar_arg()
            if r < 0.65:
                src, ren, eff = arg(d - 1) if d > 0 else scalar_arg()
                if src.startswith(("[", "{")):
                    src, ren, eff = scalar_arg()
                return "say(%s)" % src, ren, eff + "in say " + ren + "\n"
            if r < 0.8:
                lit, x = num_arg()
                return "emit(%s)" % lit, pyref.pretty(x), "<%s>" % pyref.fmt_f(x)
            if r < 0.9:
                lit, x = num_arg()
                return "two(%s)" % lit, pyref.pretty([x]), "one\ntwo %s %s\n" % (pyref.pretty(x), pyref.pretty(x))
            lit, x = num_arg()
            return "say(emit(%s))" % lit, pyref.pretty(x), "<%s>in say %s\n" % (pyref.fmt_f(x), pyref.pretty(x))

        for k in range(n):
            cid = "fx%d" % k
            nargs = rng.randint(2, 5) if k % 8 else 1
            args = [arg() for _ in range(nargs)]
            head = [scalar_arg() for _ in range(rng.randint(1, 3))]
            want = " ".join(a[1] for a in head) + "\n"
            mode = k % 3
            if mode == 0:
                # every argument is fine: the writes of the evaluations, then the one line
                want += "".join(a[2] for a in args) + " ".join(a[1] for a in args) + "\nafter\n"
                outcome, srcs = "ok", [a[0] for a in args]
            else:
                # argument j fails: the evaluations in front of it have happened (and written), nothing of the statement itself is written
                j = rng.randrange(1, nargs) if (nargs > 1 and k % 5) else rng.randrange(nargs)
                srcs = [a[0] for a in args]
                srcs[j] = rng.choice(FAULTS)
                want += "".join(a[2] for a in args[:j])
                outcome = "runtime"
            stmt = "print %s" % ", ".join(srcs)
            if k % 4 == 3:
                # the statement runs once per record; the faulting argument only fails on the last record
                nrec = rng.randint(1, 3)
                if outcome == "ok":
                    docs = [{"n": "r%d" % i, "d": float(rng.choice([1, 2, 4, 5]))} for i in range(nrec)]
                else:
                    docs = [{"n": "r%d" % i, "d": float(rng.choice([1, 2, 4, 5]))} for i in range(nrec - 1)] + [{"n": "last", "d": 0.0}]
                pre = [a for a in args[:rng.randint(0, 2)]]
                w = ""
                for i, d in enumerate(docs):
                    w += "".join(a[2] for a in pre)
                    if d["d"] != 0:
                        w += " ".join([a[1] for a in pre] + [d["n"], pyref.pretty(10.0 / d["d"])]) + "\n"
                prog = FUNS + "{ print %s }" % ", ".join([a[0] for a in pre] + ["$.n", "10 / $.d"])
                meta = {"fam": "effects", "prog": prog, "doc": V.to_json(docs), "want": w, "want_outcome": outcome}
                cases.append(Case(cid, simple_run(cid, prog, [V.to_json(docs)]), meta, True, ["effects"]))
                continue
            prog = FUNS + "BEGIN { zero = 0; arr = [1, 2]; obj = {k: 2.5}\n print %s\n %s\n print \"after\" }" % (", ".join(a[0] for a in head), stmt)
            meta = {"fam": "effects", "prog": prog, "doc": "", "want": want, "want_outcome": outcome}
            cases.append(Case(cid, simple_run(cid, prog), meta, True, ["effects"]))
        # arguments that change what other arguments of the same statement denote: the model is the reference
        for k, body in enumerate(["n = 1; print n, n = 5", "n = 1; print n = 5, n", "n = 1; print n++, n, ++n", "n = 1; print n, n += 2, n, n -= 1",
                                  "o = {k: 1}; print o, o.k = 2, o", "o = {k: 1}; print o.k, o.k = 2", "s = \"a\"; print s, s = s + \"b\", s",
                                  "n = 1; print n, bump(), n", "o = {k: [1]}; print o.k, o.k[0] = 9, o", "n = 2; print n * 2, n = 3, n * 2",
                                  "print u, u = 1, u", "n = 1; print [n], n = 2, [n]", "$ = 1; print $, $ = 2, $", "n = 1; print n, n = \"s\", n = [n]"]):
            cid = "fm%d" % k
            prog = "function bump() { n = n + 10; return n }\nBEGIN { %s }" % body
            cases.append(Case(cid, simple_run(cid, prog), {"prog": prog, "doc": "", "what": "arguments with side effects on each other (model agreement)"}, False, ["effects"]))

    # ------------------------------------------------------------ print / printf executed inside root selectors
    def gen_selectors(self, rng, n, cases):
        """"print writes its arguments ... ended by a newline" wherever the statement runs: inside a root selector (-r E: the block body
        of a match case, a printf call) and through the EvalExpression API.  Per input value every selector is evaluated in order (what
        it prints comes first), then the rules run on every selected root; a selector that fails or exits keeps what was printed before"""
        NUMS = [0.0, 1.0, 2.0, 3.0, 10.0, 2.5, -1.0, 100.0, 0.5]
        STRS = ["x", "abc", "", "é", "a b", "10", "true", "k,v"]

        def mkdoc():
            return {"a": [rng.choice(NUMS), rng.choice(NUMS)], "s": rng.choice(STRS), "n": rng.choice(NUMS),
                    "o": rng.choice([{}, {"k": rng.choice(NUMS)}, {"k": [rng.choice(STRS)], "b": None}, {"zz": True, "k": {"id": rng.choice(NUMS)}}])}

        def sel(kind, d):
            """(selector text, what its evaluation prints, selected root, how it ends: ok / runtime / exit)"""
            a, st, num, o = d["a"], d["s"], d["n"], d["o"]
            pa = pyref.pretty
            if kind == "quiet":
                return rng.choice([("$.a", "", a, "ok"), ("$", "", d, "ok"), ("$.o", "", o, "ok"), ("$.s", "", st, "ok"), ("[$.n, $.s]", "", [num, st], "ok")])
            if kind == "block":
                body = rng.choice(['{ print "sel", x, y; }', '{ print "sel", x, y }', '{\n print "sel", x, y\n}'])
                return ("match ($.a) { [x, y] => %s }" % body, "sel %s %s\n" % (pa(a[0]), pa(a[1])), None, "ok")
            if kind == "two-lines":
                return ('match ($.a) { [x, y] => { print "first", x\n print y, "second" } }', "first %s\n%s second\n" % (pa(a[0]), pa(a[1])), None, "ok")
            if kind == "printf":
                return ('printf("%s|", $.s)', st + "|", None, "ok")
            if kind == "printf-nl":
                return ('printf("p %s %s\\n", $.s, "q")', "p %s q\n" % st, None, "ok")
            if kind == "mixed":
                return ('match ($.a) { [x, y] => { printf("%s-", "k"); print x; printf("%s\\n", $.s) } }', "k-%s\n%s\n" % (pa(a[0]), st), None, "ok")
            if kind == "inside-array":
                k = rng.choice([x for x in NUMS if x >= 0])        # (a negative number is not a pattern)
                out = "one\n" if a[0] == k else "other %s\n%s\n" % (pa(a[0]), pa(d))
                return ('[$.a, match ($.a[0]) { %s => { print "one" }, v => { print "other", v; print } }]' % pyref.literal(k), out, [a, None], "ok")
            if kind == "nested":
                return ('match ($.s) { t => [t, match (t) { _ => { print "in", t } }, t] }', "in %s\n" % st, [st, None, st], "ok")
            if kind == "containers":
                return ('match ($) { d => { print d.o, d.a, d.s, d.n } }', "%s %s %s %s\n" % (pa(o), pa(a), st, pa(num)), None, "ok")
            if kind == "bare":
                return ('match (1) { _ => { print\n print $ } }', "%s\n%s\n" % (pa(d), pa(d)), None, "ok")
            if kind == "value-after":
                return ('[match ($.n) { v => { print "n is", v } }, $.n, $.s]', "n is %s\n" % pa(num), [None, num, st], "ok")
            if kind == "fails-after":
                flt = rng.choice(["1 / 0", "7 % 0", "nofn(1)", "[1] < 2"])
                return ('[match (1) { _ => { print "before", $.s } }, %s]' % flt, "before %s\n" % st, None, "runtime")
            if kind == "fails-inside":
                return ('match ($.a) { [x, y] => { print "w", x\n print "never", 1 / 0, y } }', "w %s\n" % pa(a[0]), None, "runtime")
            if kind == "exits":
                return ('match (1) { _ => { print "bye", $.n; exit } }', "bye %s\n" % pa(num), None, "exit")
            raise ValueError(kind)

        PRINTING = ["block", "block", "two-lines", "printf", "printf-nl", "mixed", "inside-array", "inside-array", "nested", "containers", "bare", "value-after"]
        ENDING = ["fails-after", "fails-inside", "exits"]
        PROGS = [
            ('{ print "rule", $ }', False),
            ('BEGIN { print "begin" }\nBEGINFILE { print "bf", $ }\n{ print "rule", $ }\nENDFILE { print "ef" }\nEND { print "end" }', True),
            ('function say(v) { print "in say", v; return v }\n{ print "rule", say($) }', False),
            ('true', False),
        ]
        self.cli = []
        for k in range(n):
            cid = "rs%d" % k
            docs = [mkdoc() for _ in range(rng.choice([1, 1, 2, 3]))]
            nsel = rng.choice([1, 1, 2, 2, 3, 4])
            kinds = [rng.choice(PRINTING) if rng.random() < 0.7 else "quiet" for _ in range(nsel)]
            if all(x == "quiet" for x in kinds):
                kinds[rng.randrange(nsel)] = rng.choice(PRINTING)
            ending = k % 4 == 3
            if ending:
                # with several selectors the failing / exiting one is NOT the first: the earlier selectors of that value have printed
                kinds[rng.randrange(1, nsel) if nsel > 1 else 0] = rng.choice(ENDING)
            pi = rng.randrange(len(PROGS))
            prog, full = PROGS[pi]
            if ending and full:
                prog, full, pi = PROGS[0][0], False, 0      # what runs after an exit is C07's subject
            # the selector texts are fixed per case (their literals must not depend on the document)
            st = rng.getstate()
            texts = None
            want, outcome = ("begin\n" if full else ""), "ok"
            stop = False
            for d in docs:
                rng.setstate(st)
                got = [sel(kd, d) for kd in kinds]
                texts = texts or [g[0] for g in got]
                roots = []
                for text, out, val, how in got:
                    want += out
                    if how != "ok":
                        outcome, stop = ("runtime" if how == "runtime" else "ok"), True
                        break
                    roots.append(val)
                if stop:
                    break
                for r in roots:
                    if full:
                        want += "bf %s\n" % pyref.pretty(r)
                    for e in (r if isinstance(r, list) else [r]):
                        if pi == 2:
                            want += "in say %s\nrule %s\n" % (pyref.pretty(e), pyref.pretty(e))
                        elif pi == 3:
                            want += pyref.pretty(e) + "\n"
                        else:
                            want += "rule %s\n" % pyref.pretty(e)
                    if full:
                        want += "ef\n"
            if full and not stop:
                want += "end\n"
            inputs = [" ".join(V.to_json(d) for d in docs)] if rng.random() < 0.6 else [V.to_json(d) for d in docs]
            meta = {"fam": "effects", "prog": prog, "doc": "\n".join(inputs), "selectors": texts, "want": want, "want_outcome": outcome,
                    "stdin": " ".join(V.to_json(d) for d in docs)}
            c = Case(cid, simple_run(cid, prog, inputs, texts), meta, len(texts) >= 2, ["selector"])
            cases.append(c)
            if k % 5 == 0:
                self.cli.append(c)
            # the same selectors through the expression API, on the first document
            if k % 2 == 0:
                rng.setstate(st)
                got = [sel(kd, docs[0]) for kd in kinds]
                for j, (text, out, val, how) in enumerate(got):
                    if kinds[j] == "quiet":
                        continue
                    eid = "rx%d_%d" % (k, j)
                    oc = "runtime" if how == "runtime" else "ok"
                    pretty = "~" if how == "runtime" else pyref.pretty(None if how == "exit" else val)
                    cases.append(Case(eid, "EXPR %s %s %s" % (eid, hx(text), hx(V.to_json(docs[0]))),
                                      {"fam": "expr", "src": text, "doc": V.to_json(docs[0]), "want": out, "want_outcome": oc, "want_value": pretty},
                                      True, ["selector", "expr"]))

    def project(self, r):
        if len(r.raw) == 6:
            # an EXPR result: outcome, position, stdout, rendering of the value
            return (r.raw[0], r.raw[4], r.raw[5])
        return Check.project(self, r)

    def extra(self, ctx):
        """the selector cases again on the real binary: -r per selector, the documents on standard input"""
        viol, stats = [], {"binary_runs": 0}
        for c in getattr(self, "cli", []):
            m = c.meta
            args = [JQAWK]
            for t in m["selectors"]:
                args += ["-r", t]
            args.append(m["prog"])
            try:
                p = subprocess.run(args, input=m["stdin"].encode(), stdout=subprocess.PIPE, stderr=subprocess.PIPE, timeout=10)
            except subprocess.TimeoutExpired:
                continue
            stats["binary_runs"] += 1
            out = p.stdout.decode("utf-8", "replace")
            err = p.stderr.decode("utf-8", "replace")
            if "goroutine " in err or "panic:" in err:
                viol.append((Case(c.id + "b", None, dict(m, argv=args[1:]), True, c.tags), "jqawk binary crashed: %r" % err[:200]))
            elif out != m["want"] or (p.returncode == 0) != (m["want_outcome"] == "ok"):
                viol.append((Case(c.id + "b", None, dict(m, argv=args[1:]), True, c.tags),
                             "jqawk binary with -r selectors that print: documented output %r (%s), binary wrote %r (exit status %d)"
                             % (m["want"], m["want_outcome"], out, p.returncode)))
        return viol[:5], stats

    def generate(self, rng, tier):
        q = tier == "quick"
        cases = []
        self.gen_num(rng, 400 if q else 20000, cases)
        self.gen_arith(rng, 80 if q else 1500, cases)
        self.gen_args(rng, 120 if q else 3000, cases)
        self.gen_bare(rng, 100 if q else 2000, cases)
        self.gen_json(rng, 200 if q else 6000, cases)
        self.gen_strings(rng, 60 if q else 1000, cases)
        self.gen_shared(rng, 150 if q else 4000, cases)
        self.gen_cycle(rng, 250 if q else 8000, cases)
        self.gen_effects(rng, 240 if q else 4000, cases)
        self.gen_selectors(rng, 160 if q else 3000, cases)
        self.gen_windows(rng, 120 if q else 3000, cases)
        return cases

    # ------------------------------------------------------------ oracle
    def oracle(self, case, impl):
        m = case.meta
        fam = m.get("fam")
        if fam is None or impl.outcome in ("noresult", "badcase"):
            return None
        if impl.outcome == "timeout":
            return "print did not terminate within the harness time limit"
        if fam == "expr":
            raw = impl.raw
            if len(raw) != 6:
                return None
            out = unhx(raw[4]).decode("utf-8", "replace")
            val = unhx(raw[5]).decode("utf-8", "replace") if raw[5] not in ("~", "nil") else raw[5]
            if raw[0] != m["want_outcome"]:
                return "EvalExpression(%r) ended in %r, documented %r" % (m["src"], raw[0], m["want_outcome"])
            if out != m["want"]:
                return "print inside an expression evaluated through EvalExpression(%r): documented output %r, implementation %r" % (m["src"], m["want"], out)
            if val != m["want_value"]:
                return "EvalExpression(%r): documented value %r, implementation %r" % (m["src"], m["want_value"], val)
            return None
        if fam == "effects":
            out = impl.stdout.decode("utf-8", "replace")
            if impl.outcome != m["want_outcome"]:
                return "run ended in %r, documented %r" % (impl.outcome, m["want_outcome"])
            if out != m["want"] and "selectors" in m:
                return "print / printf inside the root selectors %r: documented output %r, implementation %r" % (m["selectors"], m["want"], out)
            if out != m["want"]:
                return "a print statement is one line written after all its arguments are evaluated: documented output %r, implementation %r" % (m["want"], out)
            return None
        if impl.outcome != "ok":
            return "run ended in %r instead of printing" % impl.outcome
        out = impl.stdout.decode("utf-8", "replace")
        if fam == "exact":
            if out != m["want"]:
                return "documented rendering %r, implementation %r" % (m["want"], out)
            return None
        if fam == "num":
            x = float(m["x"])
            if not out.endswith("\n"):
                return "no newline at the end of %r" % out
            pat = re.escape(m["wrap"]).replace(re.escape("%s"), r"(-?[0-9.eE+A-Za-z]+)")
            mo = re.fullmatch(pat, out[:-1])
            if not mo:
                return "output %r does not have the shape %r" % (out, m["wrap"])
            for text in mo.groups():
                if not NUM_RE.match(text):
                    return "number %r printed as %r: not plain positional decimal" % (x, text)
                if V.bits(float(text)) != V.bits(x):
                    return "number %r printed as %r, which reads back as %r" % (x, text, float(text))
            return None
        if fam == "json":
            v = json.loads(m["value"])
            want = pyref.pretty(v) + "\n"
            try:
                back = json.loads(out)
            except ValueError as e:
                return "rendering of an escape-free value is not JSON (%s): %r" % (e, out)
            if norm(back) != norm(v):
                return "rendering read back as JSON differs from the value: %r" % out
            if out != want:
                return "documented rendering %r, implementation %r" % (want, out)
            return None
        return None


def literal_ok(v):
    """can pyref.literal spell this value? (object keys must be identifiers, numbers need no exponent in the lexer)"""
    if isinstance(v, dict):
        return all(re.fullmatch(r"[a-z][a-z]*", k) and k not in ("in", "is", "if", "for") for k in v) and all(literal_ok(x) for x in v.values())
    if isinstance(v, list):
        return all(literal_ok(x) for x in v)
    if isinstance(v, float):
        return len(pyref.fmt_f(abs(v))) < 60
    return True


CHECK = C17()
