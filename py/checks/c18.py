"""C18: printf emits exactly the format, each directive replaced and padded to its width."""
import re
from framework import Check, Case
from jqlib import simple_run
import pyref

LIMIT = 65536   # the generated constant moves the model; the oracle states the documented limit


def spec_printf(fmt, args):
    """Independent statement of the documented behaviour. Returns bytes or None (= runtime error)."""
    out = []
    i, n, ai = 0, len(fmt), 0
    while i < n:
        c = fmt[i]
        if c != "%":
            out.append(c)
            i += 1
            continue
        i += 1
        if i >= n:
            return None
        width, pad = 0, " "
        m = re.match(r"-?[0-9]*", fmt[i:])
        if fmt[i] == "-" or fmt[i].isdigit() and fmt[i].isascii():
            w = m.group(0)
            if w == "-":
                return None
            width = int(w)
            if abs(width) > LIMIT:
                return None
            if w[0] == "0":
                pad = "0"
            i += len(w)
            if i >= n:
                return None
        d = fmt[i]
        i += 1
        if d == "%":
            out.append("%")
            continue
        if d not in "sfv":
            return None
        if ai >= len(args):
            return None
        a = args[ai]
        ai += 1
        if d == "s":
            if not isinstance(a, str):
                return None
            text = a
        elif d == "f":
            if isinstance(a, bool) or not isinstance(a, (int, float)):
                return None
            text = pyref.fmt_f(float(a))
        else:
            text = pyref.pretty(a)
        blen = len(text.encode())
        if width > 0 and blen < width:
            text = pad * (width - blen) + text
        elif width < 0 and blen < -width:
            text = text + pad * (-width - blen)
        out.append(text)
    return "".join(out)


ARGS = ["ab", "", "hello world", "é", 0, 1, -2.5, 3.14159, 1e21, 123456789, True, False, None,
        [1, "a"], [], {"k": 1, "a": [2]}, pyref.UNSET, 0.1]
PIECES = ["x", " ", "|", "é", "\\n", "\\t", "%%", "%s", "%f", "%v", "%5s", "%-5s", "%05f", "%8v", "%-8v|", "%3%",
          "%1s", "%0s", "%-0f", "%10f", "%2v", "%d", "%5", "%-", "%", "%65536s", "%65537s", "%-65537v",
          "%99999999999999999999s", "%18446744073709551621s", "%-18446744073709551621f|", "%18446744073709551616v", "%4294967301s", "%-4294967301s",
          "%9223372036854775807s", "%-9223372036854775808s", "%9223372036854775808v", "%36893488147419103237s", "%70000%|", "%-70000%", "%65537%", "%65536%|", "%065537%", "%5%|", "%-5%|", "%007s", "%+5s", "%5.2f", "%ss", "% s",
          "%-05s|", "%-03f|", "%-012v|", "%-007s|", "%-0v|", "%00s", "%-00005f|", "%010s|", "%-10v|", "%2s%-3s|"]


FLAGS = "0-+ #"
WIDTHS = ["", "0", "3", "5", "05", "12", "-4", "00"]


def flag_strings(maxlen):
    out = [""]
    level = [""]
    for _ in range(maxlen):
        level = [p + c for p in level for c in FLAGS]
        out += level
    return out


class C18(Check):
    pid = "C18"
    props = ["C18_printf.v"]
    rule = ("format strings assembled from a palette of literal runs and directives (every width form, %%, dangling %, "
            "unknown letters, limits; every ordering and repetition of the characters 0 - + space # before a width) x argument lists of all value kinds (too few / too many / wrong kind); program prints a "
            "marker before and after the printf; non-trivial = the format contains a directive with a width")

    def generate(self, rng, tier):
        n = 400 if tier == "quick" else 6000
        cases = []
        for k in range(n):
            np_ = rng.randint(1, 5)
            fmt = "".join(rng.choice(PIECES) for _ in range(np_))
            if k < len(PIECES):
                fmt = PIECES[k] + rng.choice(["", "|", "%s"])
            nargs = rng.randint(0, 4)
            args = [rng.choice(ARGS) for _ in range(nargs)]
            # bias towards well-typed argument lists
            if rng.random() < 0.6:
                args = []
                for d in re.findall(r"%-?[0-9]*([a-zA-Z%])", fmt):
                    if d == "s":
                        args.append(rng.choice([a for a in ARGS if isinstance(a, str)]))
                    elif d == "f":
                        args.append(rng.choice([a for a in ARGS if isinstance(a, (int, float)) and not isinstance(a, bool)]))
                    elif d == "v":
                        args.append(rng.choice(ARGS))
            q = "'" if '"' in fmt else '"'
            src_args = "".join(", " + pyref.literal(a) for a in args)
            prog = "BEGIN { print \"A\"\n printf(%s%s%s%s)\n print \"Z\" }" % (q, fmt, q, src_args)
            nontrivial = bool(re.search(r"%-?[0-9]+[sfv]", fmt))
            cases.append(Case("p%d" % k, simple_run("p%d" % k, prog), {"prog": prog, "fmt": fmt, "args": repr(args)}, nontrivial))
        # every ordering and repetition of the flag characters of other printf dialects in front of the width: %0-5s %-05s %00-3f %--5s %+5s ...
        # (only `-` directly followed by digits, or digits, is a width; anything else after the % is an unknown directive)
        quick = tier == "quick"
        specs = []
        for fl in flag_strings(2 if quick else 3):
            for w in WIDTHS:
                for d in (rng.sample(["s", "f", "v"], 2) if quick else ["s", "f", "v", "%", "", "d"]):
                    specs.append(fl + w + d)
        if quick:
            for fl in rng.sample([f for f in flag_strings(4) if len(f) >= 3], 160):
                specs.append(fl + rng.choice(WIDTHS) + rng.choice(["s", "f", "v", "s", "f", "v", "%", ""]))
        for k, spec in enumerate(specs):
            d = spec[-1:] if spec[-1:] in "sfv" else ""
            arg = {"s": rng.choice(["ab", "", "é", "hello world"]), "f": rng.choice([1, -2.5, 0, 123456789]), "v": rng.choice([[1, "a"], "ab", 7, None]),
                   "": rng.choice(["ab", 1])}[d]
            args = [arg] if rng.random() < 0.9 else rng.choice([[], [arg, arg]])
            fmt = rng.choice(["[", "", "x"]) + "%" + spec + rng.choice(["]", "|", "", "]%s"])
            if fmt.endswith("%s"):
                args = args + ["t"]
            src_args = "".join(", " + pyref.literal(a) for a in args)
            prog = "BEGIN { print \"A\"\n printf(\"%s\"%s)\n print \"Z\" }" % (fmt, src_args)
            cases.append(Case("fl%d" % k, simple_run("fl%d" % k, prog), {"prog": prog, "fmt": fmt, "args": repr(args), "family": "flag orderings"},
                              len(spec) >= 3))
        # padding next to a sign: every directive x zero / space padding x both alignments x negative, zero, tiny, huge numbers
        # (the padding goes in front of the whole rendering, sign included)
        k = 0
        for d, vals in (("f", [-4.5, -12, -0.001, -0.0, 0, 7, -1e21, 123456789]), ("v", [-4.5, -12, [-1], None, True]), ("s", ["-x", "-", "+5"])):
            for w in ("06", "08", "012", "-06", "-012", "6", "-6", "01", "2"):
                for a in vals:
                    fmt = "[%" + w + d + "]"
                    prog = "BEGIN { print \"A\"\n printf(\"%s\", %s)\n print \"Z\" }" % (fmt, pyref.literal(a))
                    cases.append(Case("sg%d" % k, simple_run("sg%d" % k, prog), {"prog": prog, "fmt": fmt, "args": repr([a]), "family": "padding next to a sign"}, True))
                    k += 1
        return cases

    def oracle(self, case, impl):
        if "fmt" not in case.meta:
            return None
        fmt = case.meta["fmt"].replace("\\n", "\n").replace("\\t", "\t")
        if "\\" in fmt:
            return None
        args = eval(case.meta["args"], {"UNSET": pyref.UNSET, "inf": float("inf"), "nan": float("nan")})
        exp = spec_printf(fmt, args)
        if exp is None:
            want = ("runtime", b"A\n")
        else:
            want = ("ok", ("A\n" + exp + "Z\n").encode())
        got = (impl.outcome, impl.stdout)
        if got != want:
            return "printf(%r, %s): documented %r, implementation %r" % (fmt, case.meta["args"], want, got)
        return None


CHECK = C18()
