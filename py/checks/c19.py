"""C19: match selects the first matching case, binds pattern names, and yields its value."""
import itertools
from framework import Check, Case
from jqlib import simple_run
import pyref
from pyref import UNSET, RuntimeErr
import valgen as V

NAMES = ["x", "y", "z", "w", "q", "r", "t", "v"]
BAD = ["f()", "-1", "1 + 1", "x.y", "!true", "num(1)"]
LIT_NUMS = [0.0, 1.0, 2.0, 3.0, 5.0, 10.0, 0.5, 2.5, 100.0]
LIT_STRS = ["", "a", "b", "abc", "1", "0", "10", "2", "true", "é", " 1"]


# ---------------------------------------------------------------- the documented meaning

def matches(v, pat):
    """bindings (dict) if the pattern matches, None if not; RuntimeErr where == is an error"""
    kind = pat[0]
    if kind == "lit":
        return {} if pyref.binop("==", v, pat[1]) else None
    if kind == "id":
        return {pat[1]: v}
    if kind == "arr":
        if not isinstance(v, list) or len(v) != len(pat[1]):
            return None
        env = {}
        for item, p in zip(v, pat[1]):
            b = matches(item, p)
            if b is None:
                return None
            env.update(b)
        return env
    raise RuntimeErr("not a pattern")          # reached an unsupported pattern kind


def match_value(subject, cases, env0):
    """(printed lines, value) of match (subject) { cases }; RuntimeErr if an evaluated pattern is an error"""
    for c in cases:
        for alt in c["alts"]:
            b = matches(subject, alt)
            if b is None:
                continue
            env = dict(env0)
            env.update(b)
            shown = [env[n] for n in c["show"]]
            if c["body"] == "block":
                return ["B %s" % " ".join([c["label"]] + [pyref.pretty(x) for x in shown])], None
            if c["body"] == "exprlist":
                return ["B %s" % c["label"]], shown
            if c["body"] == "exprone":
                return ["B %s" % c["label"]], shown[0]
            return ["B %s" % c["label"]], c["const"]
    return [], None


# ---------------------------------------------------------------- source text

def pat_src(p):
    if p[0] == "lit":
        return pyref.literal(p[1])
    if p[0] == "id":
        return p[1]
    if p[0] == "arr":
        return "[" + ", ".join(pat_src(x) for x in p[1]) + "]"
    return p[1]


def pat_names(p, acc):
    if p[0] == "id" and p[1] != "_":
        acc.append(p[1])
    elif p[0] == "arr":
        for x in p[1]:
            pat_names(x, acc)
    return acc


def case_src(c):
    pats = ", ".join(pat_src(a) for a in c["alts"])
    if c["body"] == "block":
        body = '{ print %s }' % ", ".join(['"B"', '"%s"' % c["label"]] + c["show"])
    elif c["body"] == "exprlist":
        body = 'say("%s", [%s])' % (c["label"], ", ".join(c["show"]))
    elif c["body"] == "exprone":
        body = 'say("%s", %s)' % (c["label"], c["show"][0])
    else:
        body = 'say("%s", %s)' % (c["label"], pyref.literal(c["const"]))
    return "%s => %s" % (pats, body)


# ---------------------------------------------------------------- generator

def subject(rng, d):
    k = rng.random()
    if d > 0 and k < 0.5:
        return [subject(rng, d - 1) for _ in range(rng.randint(0, 4))]
    if d > 0 and k < 0.54:
        return {"k": subject(rng, 0)}
    k = rng.random()
    if k < 0.4:
        return rng.choice(LIT_NUMS + [-1.0, -2.5, -0.0])
    if k < 0.7:
        return rng.choice(LIT_STRS)
    if k < 0.8:
        return rng.choice([True, False])
    if k < 0.9:
        return None
    return UNSET


class PatGen:
    def __init__(self, rng):
        self.r = rng
        self.free = []

    def fresh(self):
        return ("id", self.free.pop()) if self.free else ("id", "_")

    def lit(self, near=None, miss=False):
        r = self.r.random()
        if near is not None and not miss and r < 0.6 and is_literal(near):
            return ("lit", near)
        if r < 0.75:
            return ("lit", self.r.choice(LIT_NUMS))
        if r < 0.9:
            return ("lit", self.r.choice(LIT_STRS))
        return ("lit", self.r.choice([True, False, None]))

    def derive(self, v, d, miss=False, top=True):
        """a pattern shaped after the value, so that matches (and, with miss, near misses deep inside) are frequent"""
        r = self.r.random()
        if r < 0.22 and not (miss and top):
            return self.fresh()
        if isinstance(v, list) and d > 0 and r < 0.9:
            items = [self.derive(x, d - 1, miss and self.r.random() < 0.5, False) for x in v]
            t = self.r.random()
            if t < (0.3 if miss else 0.05) and items:
                items.pop(self.r.randrange(len(items)))
            elif t < (0.5 if miss else 0.1) and len(items) < 4:
                items.insert(self.r.randint(0, len(items)), self.fresh())
            return ("arr", items)
        if isinstance(v, (list, dict)):
            if miss and top and r < 0.97:
                # an array pattern of another length: no match, and no comparison of a container with a literal
                n = self.r.choice([k for k in (0, 1, 2, 3) if not isinstance(v, list) or k != len(v)])
                return ("arr", [self.fresh() for _ in range(n)]) if self.r.random() < 0.8 else ("lit", None)
            return self.fresh() if r < 0.92 else self.lit(None, miss)
        return self.lit(v, miss)

    def random(self, d):
        r = self.r.random()
        if r < 0.3:
            return self.fresh()
        if d > 0 and r < 0.55:
            return ("arr", [self.random(d - 1) for _ in range(self.r.randint(0, 3))])
        return self.lit()

    def wrong_lit(self, v):
        for _ in range(20):
            p = self.lit(None, True)
            if not pyref.binop("==", v, p[1]):
                return p
        return ("lit", "no such value")

    def late_miss(self, v, d=2):
        """for an array value: a pattern of the same length that BINDS names at earlier positions (or deeper inside) and
        then fails on a later element; None if the value offers no such position"""
        if not isinstance(v, list) or not v:
            return None
        deep = [j for j in range(len(v)) if d > 0 and isinstance(v[j], list) and len(v[j]) >= 2]
        flat = [j for j in range(1, len(v))]
        if not deep and not flat:
            return None
        if deep and (not flat or self.r.random() < 0.4):
            j = self.r.choice(deep)
            failing = self.late_miss(v[j], d - 1)
        else:
            j = self.r.choice(flat)
            x = v[j]
            if isinstance(x, (list, dict)):
                n = self.r.choice([k for k in (0, 1, 2, 3) if not isinstance(x, list) or k != len(x)])
                failing = ("arr", [self.fresh() for _ in range(n)])
            else:
                failing = self.wrong_lit(x)
        items = []
        for i, x in enumerate(v):
            if i == j:
                items.append(failing)
            elif i < j:
                items.append(self.fresh() if self.r.random() < 0.75 or isinstance(x, (list, dict)) else self.derive(x, 1, False, False))
            else:
                items.append(self.derive(x, 1, self.r.random() < 0.3, False) if not isinstance(x, (list, dict)) else self.fresh())
        return ("arr", items)

    def hit(self, subj):
        """an alternative that matches (verified with the reference matcher)"""
        for _ in range(6):
            self.free = self.r.sample(NAMES, len(NAMES))
            p = self.derive(subj, 3, False)
            try:
                if matches(subj, p) is not None:
                    return p
            except RuntimeErr:
                pass
        return ("id", self.r.choice(NAMES))

    def alternative(self, subj, miss=False):
        self.free = self.r.sample(NAMES, len(NAMES))
        if self.r.random() < 0.75:
            return self.derive(subj, 3, miss)
        return self.random(2)


def is_literal(v):
    if isinstance(v, bool) or v is None or isinstance(v, str):
        return True
    return isinstance(v, float) and (v > 0 or (v == 0 and str(v) == "0.0"))


def build(rng, cid, subj, cases, via):
    # some outer names stay unset: a body that reads one sees <unknown>, never a binding of a failed alternative
    unset = set(n for n in NAMES if rng.random() < 0.2)
    env0 = {n: (UNSET if n in unset else "g" + n) for n in NAMES + ["_"]}
    head = ["function say(l, v) { print \"B\", l\n return v }", "{"]
    head += [" %s = \"g%s\"" % (n, n) for n in NAMES + ["_"] if n not in unset]
    pre = []
    if via == "call":
        # the subject expression has a side effect: it is evaluated exactly once, whatever the number of cases
        head.insert(1, "function subjf() { print \"T\"\n return %s }" % pyref.literal(subj))
        subj_src, doc, pre = "subjf()", "{}", ["T"]
    elif via == "doc":
        subj_src, doc = "$.s", V.to_json({"s": subj})
    elif via == "var":
        head.append(" subj = %s" % pyref.literal(subj))
        subj_src, doc = "subj", "{}"
    else:
        subj_src, doc = pyref.literal(subj), "{}"
    head.append(' print "S"')
    lines = []
    for i, c in enumerate(cases):
        # an expression body must be closed by a comma (the next pattern could continue the expression: `say(..)\n [1] =>`)
        sep = "," if c["body"] != "block" else rng.choice([",", ""])
        lines.append("  " + case_src(c) + sep)
    prog = "\n".join(head + [' print "V", match (%s) {' % subj_src] + lines + [" }", ' print "G", %s' % ", ".join(NAMES + ["_"]), "}"])
    try:
        printed, val = match_value(subj, cases, env0)
        out = ["S"] + pre + printed + ["V " + pyref.pretty(val), "G " + " ".join(pyref.pretty(env0[n]) for n in NAMES + ["_"])]
        outcome = "ok"
    except RuntimeErr:
        out, outcome = ["S"] + pre, "runtime"
    meta = {"prog": prog, "doc": doc, "subject": pyref.pretty(subj, True), "cases": [case_src(c) for c in cases],
            "expect_outcome": outcome, "expect_stdout": "".join(l + "\n" for l in out)}
    nontrivial = len(cases) >= 2 and any(len(c["alts"]) >= 2 for c in cases)
    return Case(cid, simple_run(cid, prog, [doc]), meta, nontrivial)


def make_cases(rng, subj):
    pg = PatGen(rng)
    cases = []
    ncases = rng.randint(1, 5)
    target = rng.randint(0, ncases)             # the case meant to match (ncases: none); earlier ones are near misses
    for i in range(ncases):
        nalt = rng.choice([1, 1, 2, 2, 3])
        hit = rng.randrange(nalt)
        alts = [pg.alternative(subj, miss=(i < target or (i == target and a != hit))) for a in range(nalt)]
        if isinstance(subj, list) and i <= target and rng.random() < 0.45:
            # alternatives that bind names and then fail on a later element, before one that matches (in the target case)
            # or before the next case: nothing they bound may be visible in any body
            pg.free = rng.sample(NAMES, len(NAMES))
            lm = [pg.late_miss(subj) for _ in range(rng.choice([1, 1, 2]))]
            lm = [x for x in lm if x is not None]
            if lm:
                alts = lm + ([pg.hit(subj)] if i == target else []) + (alts[:1] if rng.random() < 0.3 else [])
                alts = alts[:3]
        names = sorted(set(n for a in alts for n in pat_names(a, [])))
        if rng.random() < 0.3:
            names = sorted(set(names + [rng.choice(NAMES)]))          # a name this case does not bind: the outer variable
        if cases and rng.random() < 0.4:
            # names that only alternatives of EARLIER cases mention
            names = sorted(set(names + [n for c0 in cases for a in c0["alts"] for n in pat_names(a, [])][:3]))
        body = rng.choice(["block", "exprlist", "exprlist", "exprone", "const"])
        if not names and body in ("exprlist", "exprone"):
            body = "const"
        cases.append({"alts": alts, "body": body, "label": "L%d" % i, "show": names,
                      "const": rng.choice([7.0, "c%d" % i, True, None, [1.0, "a"]])})
    r = rng.random()
    if r < 0.3:
        pos = len(cases) if rng.random() < 0.75 else rng.randint(0, len(cases))
        cases.insert(pos, {"alts": [("bad", rng.choice(BAD))], "body": "const", "label": "LX", "show": [], "const": 0.0})
    return cases



# ---------------------------------------------------------------- literal patterns agree with ==, for every pair
# "A literal pattern matches when v == literal": subjects that no JSON document or literal can spell (NaN, infinities,
# -0, results of arithmetic), numeric strings of every shape, booleans and null, against every kind of literal.  Each
# line of the program prints `v == L` next to what a match on the pattern L says; the two must be the same word.

SPECIAL_SUBJECTS = [
    '+"NaN"', '"Inf" - "Inf"', '0 * +"Inf"', '+"Inf"', '0 - +"Inf"', '"1e308" * 10', '"-1e308" * 10', '+"Infinity"',
    '0 * (0 - 1)', '0 - 0', '(0 - 1) * 0.0', '+"-0"', '0.1 + 0.2', '1 / 3 * 3', '10 / 4', '0 - 1', '2 - 1', '1000000 * 1000000 * 1000000 * 1000',
    '+"1"', '+"abc"', '+""', '+true', '+null',
    '"1"', '"1.0"', '" 1"', '"1 "', '"1e0"', '"0x1"', '"+1"', '"-0"', '"0"', '"00"', '".5"', '"5."', '"0.5"', '"NaN"', '"nan"', '"Inf"', '"inf"',
    '"+Inf"', '"-Inf"', '"Infinity"', '""', '" "', '"true"', '"false"', '"null"', '"abc"', '"1_000"', '"1e400"', '"2"', '"10"', '"0.30000000000000004"',
    'true', 'false', 'null', '0', '1', '0.5', '0.3', '2', '100',
]
SPECIAL_LITERALS = ['0', '1', '2', '10', '100', '0.5', '0.3', '1.0', '0.0', '1000000000000000000000', '""', '"0"', '"1"', '"1.0"', '" 1"', '"NaN"',
                    '"Inf"', '"-Inf"', '"abc"', '"true"', '"false"', '"null"', '"0.5"', '"-0"', 'true', 'false', 'null']


def literal_agreement_programs(rng, per_prog=9):
    """(program, [(subject, literal, form)]) : every subject x every literal, in three pattern positions"""
    pairs = [(s_, l_) for s_ in SPECIAL_SUBJECTS for l_ in SPECIAL_LITERALS]
    rng.shuffle(pairs)
    out = []
    for k in range(0, len(pairs), per_prog):
        chunk = pairs[k:k + per_prog]
        lines, what = [], []
        for s_, l_ in chunk:
            form = rng.choice(["alone", "alone", "in-array", "second-alternative", "nested"])
            other = rng.choice([x for x in SPECIAL_LITERALS if x != l_])
            if form == "alone":
                m = "match (v) { %s => true,\n _ => false }" % l_
                e = "v == %s" % l_
            elif form == "in-array":
                m = "match ([3, v]) { [3, %s] => true,\n _ => false }" % l_
                e = "v == %s" % l_
            elif form == "nested":
                m = "match ([[v], 1]) { [[%s], 1] => true,\n _ => false }" % l_
                e = "v == %s" % l_
            else:
                m = "match (v) { %s, %s => true,\n _ => false }" % (other, l_)
                e = "(v == %s || v == %s)" % (other, l_)
            lines.append(" v = %s\n print \"e\", %s, %s" % (s_, e, m))
            what.append([s_, l_, form])
        out.append(("BEGIN {\n" + "\n".join(lines) + "\n}", what))
    return out


# ---------------------------------------------------------------- later cases whose pattern cannot be evaluated
# "no pattern of a later case is evaluated": a literal pattern whose evaluation is an error (a string with an escape other
# than \n \t \\, a string ending in a lone backslash, a number too large to read) in a case AFTER the one that matches must
# never be touched, alone, among alternatives or inside (nested) array patterns, on the first evaluation of the match
# expression and on every later one.  A top-level faulting string pattern that IS reached stops the run there.
FAULT_STRS = ['"\\q"', "'a\\zb'", '"C:\\data"', '"a\\"', "'\\'", '"\\x41"', '"\\u00e9"', '"\\0"', '"\\ "', '"%d\\%%"', '"\\N"', '"tab\\T"']
FAULT_NUMS = ["9" * 400, "1" + "0" * 309, "17976931348623159" + "0" * 292 + ".5"]


def fault_pattern(rng, subj, allow_top=True):
    """(kind, source): kind 'fault' = a faulting literal at the top level of an alternative, 'arrfault' = inside an array pattern
    shaped after the subject (so that, were it reached, the elements before it would mostly match)"""
    bad = rng.choice(FAULT_STRS) if rng.random() < 0.75 else rng.choice(FAULT_NUMS)
    if allow_top and (not isinstance(subj, list) or rng.random() < 0.35):
        return ("fault", bad)

    def shape(v, d):
        """array pattern source following v with `bad` at one position"""
        if not isinstance(v, list) or not v:
            n = rng.randint(1, 3)
            items = [rng.choice(["_", "1", '"a"', "x"]) for _ in range(n)]
            items[rng.randrange(n)] = bad
            return "[" + ", ".join(items) + "]"
        j = rng.randrange(len(v))
        items = []
        for i, x in enumerate(v):
            if i == j:
                items.append(shape(x, d - 1) if isinstance(x, list) and d > 0 and rng.random() < 0.6 else bad)
            elif is_literal(x) and not (isinstance(x, str) and ("\\" in x or '"' in x)) and rng.random() < 0.6:
                items.append(pyref.literal(x))
            else:
                items.append(rng.choice(NAMES))
        if rng.random() < 0.2:
            items.append(bad)
        return "[" + ", ".join(items) + "]"
    return ("arrfault", shape(subj if isinstance(subj, list) else [subj], 2))


def first_match(subj, cases):
    """index of the first case with a matching alternative; None if none; 'fault' / 'arrfault' if such an alternative comes
    first; RuntimeErr from == propagates"""
    for i, c in enumerate(cases):
        for alt in c["alts"]:
            if alt[0] in ("fault", "arrfault"):
                return alt[0]
            if matches(subj, alt) is not None:
                return i
    return None


def build_fault(rng, cid, n_subj):
    for _ in range(50):
        subjects = []
        s0 = subject(rng, rng.choice([0, 1, 2, 2, 3]))
        if V.has_unset(s0):
            continue
        cases = [c for c in make_cases(rng, s0) if c["alts"][0][0] != "bad"]
        if not cases:
            continue
        try:
            m0 = first_match(s0, cases)
        except RuntimeErr:
            continue
        if not isinstance(m0, int):
            # make sure something matches: a catch-all case at a random later position
            cases.append({"alts": [("id", rng.choice(NAMES))], "body": "const", "label": "LC", "show": [], "const": "all"})
            m0 = len(cases) - 1
        # faulting cases after the matching one (and sometimes extra faulting alternatives in even later cases)
        nf = rng.choice([1, 1, 2, 3])
        for k in range(nf):
            pos = rng.randint(m0 + 1, len(cases))
            alts = [fault_pattern(rng, s0)]
            if rng.random() < 0.4:
                pg = PatGen(rng)
                alts.insert(rng.randint(0, 1), pg.alternative(s0, miss=rng.random() < 0.7))
            if rng.random() < 0.2:
                alts.append(fault_pattern(rng, s0))
            cases.insert(pos, {"alts": alts, "body": rng.choice(["const", "block"]), "label": "LF%d" % k, "show": [], "const": "never"})
        # the subjects of the successive evaluations: the first one, itself again, others that stop before any faulting case,
        # and (last, sometimes) one that reaches a top-level faulting string literal
        subjects = [s0]
        tries = 0
        while len(subjects) < n_subj and tries < 40:
            tries += 1
            sj = s0 if rng.random() < 0.3 else subject(rng, rng.choice([0, 1, 2]))
            if V.has_unset(sj):
                continue
            try:
                mj = first_match(sj, cases)
            except RuntimeErr:
                continue
            if isinstance(mj, int):
                subjects.append(sj)
        reach, reached = None, False
        if rng.random() < 0.3:
            for _ in range(20):
                sj = subject(rng, 0)
                if V.has_unset(sj):
                    continue
                try:
                    if first_match(sj, cases) == "fault":
                        # only string escapes are documented faults; a number that cannot be read is left to the model comparison
                        firstf = [a for c in cases for a in c["alts"] if a[0] == "fault"][0]
                        if firstf[1] in FAULT_STRS:
                            reach, reached = sj, True
                        break
                except RuntimeErr:
                    pass
        if reached:
            subjects.append(reach)
        env0 = {n: "g" + n for n in NAMES + ["_"]}
        out, outcome = ["S"], "ok"
        for j, sj in enumerate(subjects):
            if reached and j == len(subjects) - 1:
                outcome = "runtime"
                break
            printed, val = match_value(sj, cases, env0)
            out += printed + ["V " + pyref.pretty(val)]
        if outcome == "ok":
            out.append("G " + " ".join(pyref.pretty(env0[n]) for n in NAMES + ["_"]))
        via = rng.choice(["func", "loop", "records", "unrolled"])
        if any(isinstance(x, str) and ("\\" in x or '"' in x) for x in subjects):
            continue
        lines = []
        for c in cases:
            lines.append("  " + case_src(c) + ("," if c["body"] != "block" else rng.choice([",", ""])))
        mtext = lambda sub: "match (%s) {\n%s\n }" % (sub, "\n".join(lines))
        head = ['function say(l, v) { print "B", l\n return v }']
        setnames = "".join(' %s = "g%s"\n' % (n, n) for n in NAMES + ["_"])
        gline = ' print "G", %s\n' % ", ".join(NAMES + ["_"])
        doc = "{}"
        if via == "func":
            head.append("function mm(subj) { return %s }" % mtext("subj"))
            body = "BEGIN {\n" + setnames + ' print "S"\n' + "".join(' print "V", mm(%s)\n' % pyref.literal(sj) for sj in subjects) + gline + "}"
        elif via == "loop":
            body = ("BEGIN {\n" + setnames + ' print "S"\n subs = [%s]\n for (i = 0; i < %d; i++) {\n print "V", %s\n }\n' % (
                ", ".join(pyref.literal(sj) for sj in subjects), len(subjects), mtext("subs[i]")) + gline + "}")
        elif via == "records":
            doc = V.to_json(subjects)
            body = "BEGIN {\n" + setnames + ' print "S"\n}\n{\n print "V", %s\n}\nEND {\n' % mtext("$") + gline + "}"
        else:
            body = "BEGIN {\n" + setnames + ' print "S"\n' + "".join(' print "V", %s\n' % mtext(pyref.literal(sj)) for sj in subjects) + gline + "}"
        prog = "\n".join(head + [body])
        meta = {"prog": prog, "doc": doc, "subject": " ; ".join(pyref.pretty(sj, True) for sj in subjects), "cases": [case_src(c) for c in cases],
                "expect_outcome": outcome, "expect_stdout": "".join(l + "\n" for l in out), "via": via}
        return Case(cid, simple_run(cid, prog, [doc]), meta, len(subjects) >= 2, ("fault",))
    return None


# ---------------------------------------------------------------- bodies that yield functions, bound methods, containers, regexes
# "yields that body's value": whatever kind of value the selected body evaluates to comes out of the match unchanged.  A
# function or a bound method can be called on the spot (dispatch tables), also when it was returned from a function or came
# out of a nested match; a container is the very same container (a store through the result shows in the original and in
# nothing else); a regex still matches.  Python mirrors of the functions and methods give the documented output.
import math, re as _re

YFUNS = ("function dbl(v) { return v * 2 }\nfunction inc(v) { return v + 100 }\nfunction neg(v) { return 0 - v }\n"
         "function pair(v) { return [v, \"p\"] }\nfunction idf(v) { return v }\n")
YMIRROR = {"dbl": lambda v: v * 2, "inc": lambda v: v + 100, "neg": lambda v: 0 - v, "pair": lambda v: [v, "p"]}
YKEYS = ["dbl", "inc", "neg", "pair", "a", "", "1", "10", 1.0, 2.0, 10.0, 0.0, True, None]


def _go_round(x):
    return math.copysign(math.floor(abs(x) + 0.5), x)


def _select(k, keys):
    """index of the first literal in keys that == k, else None"""
    for i, lit in enumerate(keys):
        if pyref.binop("==", k, lit):
            return i
    return None


def build_yield(rng, cid):
    kind = rng.choice(["dispatch", "dispatch", "dispatch", "returned", "method0", "method0", "method1", "mutator", "bound-name", "nested",
                       "native", "shared-array", "shared-object", "store-through", "bound-element", "regex", "printed"])
    doc = {"n": 1}
    head = [YFUNS]
    body, out = [], []
    outcome = "ok"

    def subject_src(k):
        """the subject expression for key k: a literal, a variable, a member of the document, a call"""
        how = rng.choice(["lit", "var", "doc", "call"])
        if how == "lit":
            return pyref.literal(k)
        if how == "var":
            body.append(" key = %s" % pyref.literal(k))
            return "key"
        if how == "doc":
            doc["k"] = k
            return "$.k"
        return "idf(%s)" % pyref.literal(k)

    def table(nmin=2):
        """distinct literal keys (strings, numbers, booleans, null) in a random order, and a key to look up"""
        keys = rng.sample(YKEYS, rng.randint(nmin, 4))
        k = rng.choice(keys) if rng.random() < 0.8 else rng.choice(YKEYS)
        return keys, k

    def cases_src(keys, bodies, default=None):
        parts = ["%s => %s" % (pyref.literal(kk), b) for kk, b in zip(keys, bodies)]
        if default is not None:
            parts.append("%s => %s" % (rng.choice(["_", "other"]), default))
        sep = rng.choice([", ", ",\n   "])
        return "{ " + sep.join(parts) + " }"

    if kind in ("dispatch", "returned", "nested", "printed"):
        keys, k = table()
        fns = [rng.choice(list(YMIRROR)) for _ in keys]
        dflt = rng.choice(list(YMIRROR))
        arg = rng.choice([1.0, 2.0, 5.0, 0.5, 10.0, 0.0])
        i = _select(k, keys)
        fn = fns[i] if i is not None else dflt
        want = YMIRROR[fn](arg)
        body.append(' print "start"')
        out.append("start")
        if kind == "dispatch":
            m = "match (%s) %s" % (subject_src(k), cases_src(keys, fns, dflt))
            call = rng.choice(["(%s)(%s)", "%s(%s)"]) % (m, pyref.literal(arg))
            body.append(' print "r", %s' % call)
            out.append("r " + pyref.pretty(want))
        elif kind == "returned":
            head.append("function pick(k) { return match (k) %s }\n" % cases_src(keys, fns, dflt))
            body.append(' print "r", pick(%s)(%s), pick(%s)(%s)' % (subject_src(k), pyref.literal(arg), pyref.literal(keys[0]), pyref.literal(arg)))
            out.append("r %s %s" % (pyref.pretty(want), pyref.pretty(YMIRROR[fns[0]](arg))))
        elif kind == "nested":
            inner = "match (%s) %s" % (subject_src(k), cases_src(keys, fns, dflt))
            osub, opat = rng.choice([("1", "1"), ('"x"', '"x"'), ("true", "true"), ("1", "t"), ('"x"', "t"), ("true", "1"), ("1", '"1"')])
            m = "match (%s) { %s => %s, _ => %s }" % (osub, opat, inner, rng.choice(list(YMIRROR)))
            body.append(' print "r", %s(%s)' % (m, pyref.literal(arg)))
            out.append("r " + pyref.pretty(want))
        else:
            # the function value itself, printed; and the match that selects nothing
            m = "match (%s) %s" % (subject_src(k), cases_src(keys, fns, None))
            body.append(' print "r", %s' % m)
            out.append("r " + ("<function>" if i is not None else "null"))
    elif kind in ("method0", "method1", "mutator"):
        arr = [rng.choice([3.0, 1.0, 2.0, 10.0, 0.5, 7.0]) for _ in range(rng.randint(1, 5))]
        st = rng.choice(["abc", "a,b", "Mixed,Case", "x", "k,v,w"])
        num = rng.choice([2.5, 3.7, -1.2, 4.0, 0.49])
        body += [" a = %s" % pyref.literal(arr), " s = %s" % pyref.literal(st), " n = %s" % pyref.literal(num), ' print "start"']
        out.append("start")
        if kind == "method0":
            pool = {"a.length": float(len(arr)), "a.sort": sorted(arr), "s.upper": st.upper(), "s.lower": st.lower(), "s.length": float(len(st)),
                    "n.floor": float(math.floor(num)), "n.ceil": float(math.ceil(num)), "n.round": _go_round(num)}
            args, argv = "", None
        elif kind == "method1":
            probe = rng.choice(arr + [4.0, "1"])
            pool = {"a.contains": None, "s.split": None, "a.push": None}
            args, argv = None, probe
        else:
            pool = {"a.pop": None, "a.popfirst": None}
            args, argv = "", None
        keys, k = table()
        names = [rng.choice(list(pool)) for _ in keys]
        dflt = rng.choice(list(pool))
        i = _select(k, keys)
        name = names[i] if i is not None else dflt
        if kind == "method1":
            if name == "s.split":
                argv = ","
            args = pyref.literal(argv)
            want = (any(pyref.binop("==", argv, x) for x in arr) if name == "a.contains" else st.split(",") if name == "s.split" else arr + [argv])
            if name == "a.push":
                arr = arr + [argv]
        elif kind == "mutator":
            want = arr[-1] if name == "a.pop" else arr[0]
            arr = arr[:-1] if name == "a.pop" else arr[1:]
        else:
            want = pool[name]
        m = "match (%s) %s" % (subject_src(k), cases_src(keys, names, dflt))
        body.append(' print "r", %s(%s)' % (rng.choice(["(%s)", "%s"]) % m, args))
        out.append("r " + pyref.pretty(want))
        body.append(' print "a", a, s, n')
        out.append("a %s %s %s" % (pyref.pretty(arr), st, pyref.pretty(num)))
    elif kind == "bound-name":
        st = rng.choice(["abc", "Mixed", "x y"])
        form = rng.choice(["fn", "str", "elem", "arr"])
        body.append(' print "start"')
        out.append("start")
        if form == "fn":
            f = rng.choice(list(YMIRROR))
            # (a function cannot be an element of an array literal: only the whole subject is one)
            body.append(' print "r", match (%s) { [z] => dbl, fn => fn }(3), match (%s) { g => match (g) { h => h } }(4)' % (f, f))
            out.append("r %s %s" % (pyref.pretty(YMIRROR[f](3.0)), pyref.pretty(YMIRROR[f](4.0))))
        elif form == "str":
            body.append(' print "r", match (%s) { t => t.upper }(), match (%s) { t => t.length }()' % (pyref.literal(st), pyref.literal(st)))
            out.append("r %s %s" % (st.upper(), pyref.pretty(float(len(st)))))
        elif form == "elem":
            body.append(' print "r", match ([1, %s]) { [1, t] => t.lower, [_, t] => t.upper }()' % pyref.literal(st))
            out.append("r " + st.lower())
        else:
            body.append(' print "r", match ([[5, 6, 7], 2]) { [l, 3] => l.pop, [l, 2] => l.length, _ => dbl }()')
            out.append("r 3")
    elif kind == "native":
        keys, k = table()
        i = _select(k, keys)
        body.append(' print "start"')
        out.append("start")
        if rng.random() < 0.5:
            body.append(' print "r", match (%s) %s("12.5") + 1' % (subject_src(k), cases_src(keys, ["num"] * len(keys), "num")))
            out.append("r 13.5")
        else:
            body.append(' match (%s) %s("%%s|%%s|", "x", "y")' % (subject_src(k), cases_src(keys, ["printf"] * len(keys), "printf")))
            body.append(' print "after"')
            out.append("x|y|after")
    elif kind in ("shared-array", "shared-object", "store-through"):
        keys, k = table()
        arrs = {"a": [1.0, 2.0, 3.0], "b": ["x", "y"], "c": [[1.0], 2.0]}
        objs = {"o": {"k": 1.0}, "q": {"k": "v", "j": [1.0]}, "u": {}}
        use = arrs if kind == "shared-array" or (kind == "store-through" and rng.random() < 0.5) else objs
        for nm, v in list(arrs.items()) + list(objs.items()):
            body.append(" %s = %s" % (nm, pyref.literal(v)))
        names = [rng.choice(list(use)) for _ in keys]
        dflt = rng.choice(list(use))
        i = _select(k, keys)
        name = names[i] if i is not None else dflt
        m = "match (%s) %s" % (subject_src(k), cases_src(keys, names, dflt))
        tgt = use[name]
        if use is arrs:
            j = rng.randrange(len(tgt))
            if kind == "store-through":
                body.append(' %s[%d] = "w"' % (m, j))
            else:
                body += [" m = %s" % m, ' m[%d] = "w"' % j]
            tgt[j] = "w"
        else:
            key = rng.choice(["k", "z"])
            if kind == "store-through":
                body.append(' %s.%s = "w"' % (m, key))
            else:
                body += [" m = %s" % m, ' m.%s = "w"' % key]
            tgt[key] = "w"
        body.append(' print "r", a, b, c, o, q, u')
        out.append("r " + " ".join(pyref.pretty(v) for v in list(arrs.values()) + list(objs.values())))
        if kind != "store-through":
            body.append(' print "m", m')
            out.append("m " + pyref.pretty(tgt))
    elif kind == "bound-element":
        t = [[1.0, 2.0], {"k": 1.0}, 3.0]
        body.append(" t = %s" % pyref.literal(t))
        if rng.random() < 0.5:
            body += [" m = match (t) { [first, _] => 0, [first, _, 3] => first }", ' m[0] = "w"']
            t[0][0] = "w"
        else:
            body += [" m = match (t) { [_, ob, _] => ob }", ' m.z = "w"']
            t[1]["z"] = "w"
        body.append(' print "r", t')
        out.append("r " + pyref.pretty(t))
    else:
        keys, k = table()
        pats = ["a+", "^b", "c$", "[0-9]", "x|y"]
        regs = [rng.choice(pats) for _ in keys]
        dflt = rng.choice(pats)
        i = _select(k, keys)
        rx = regs[i] if i is not None else dflt
        subs = [rng.choice(["caab", "b", "abc", "x1", "", "yc"]) for _ in range(3)]
        m = "match (%s) %s" % (subject_src(k), cases_src(keys, ["/%s/" % x for x in regs], "/%s/" % dflt))
        if rng.random() < 0.5:
            body.append(" r = %s" % m)
            body.append(' print "r", %s' % ", ".join("%s ~ r" % pyref.literal(x) for x in subs))
        else:
            body.append(' print "r", %s' % ", ".join("%s ~ %s" % (pyref.literal(x), "(%s)" % m) for x in subs[:1]))
            subs = subs[:1]
        out.append("r " + " ".join(pyref.pretty(bool(_re.search(rx, x))) for x in subs))
    docj = V.to_json(doc)
    prog = "".join(head) + "{\n" + "\n".join(body) + "\n}"
    meta = {"prog": prog, "doc": docj, "subject": "(a body that yields a %s)" % kind, "cases": [l.strip() for l in body if "match (" in l],
            "expect_outcome": outcome, "expect_stdout": "".join(l + "\n" for l in out)}
    return Case(cid, simple_run(cid, prog, [docj]), meta, True, ("yield", kind))


FIXED = [
    ([1.0, 2.0], [[("arr", [("id", "x"), ("lit", 3.0)]), ("arr", [("id", "y"), ("lit", 2.0)])]]),
    ([[5.0, 6.0], 2.0], [[("arr", [("arr", [("id", "x"), ("lit", 9.0)]), ("id", "y")]), ("id", "z")]]),
    ([1.0, 2.0], [[("arr", [("id", "x"), ("lit", 3.0)])], [("arr", [("id", "y"), ("lit", 2.0)])]]),
    ([2.0, 5.0], [[("arr", [("lit", 1.0), ("id", "x")]), ("arr", [("lit", 2.0), ("id", "x")])]]),
    ([2.0, 5.0], [[("arr", [("lit", 1.0), ("id", "x")]), ("id", "y")]]),
    ([2.0, 5.0], [[("arr", [("id", "x")]), ("arr", [("id", "x"), ("id", "y"), ("id", "z")]), ("arr", [("id", "y"), ("lit", 5.0)])]]),
    (UNSET, [[("lit", 0.0)], [("lit", "")], [("lit", False)], [("lit", None)], [("id", "x")]]),
    ([UNSET, 1.0], [[("arr", [("lit", 0.0), ("lit", 1.0)])], [("arr", [("id", "x"), ("lit", 1.0)])]]),
    (1.0, [[("lit", 2.0), ("lit", 1.0)], [("lit", 1.0)], [("id", "x")]]),
    ("1", [[("lit", 1.0)], [("lit", "1")]]),
    (3.0, [[("lit", 1.0)], [("lit", 2.0)]]),
    ([[1.0, [2.0, 3.0]], 4.0], [[("arr", [("arr", [("id", "x"), ("arr", [("lit", 9.0), ("id", "y")])]), ("id", "z")]),
                               ("arr", [("arr", [("id", "x"), ("arr", [("lit", 2.0), ("id", "y")])]), ("lit", 4.0)])]]),
    ([], [[("arr", [("id", "x")])], [("arr", [])]]),
    ([1.0], [[("lit", 1.0)], [("id", "x")]]),
    (None, [[("arr", [])], [("lit", 0.0)], [("lit", None)]]),
]


class C19(Check):
    pid = "C19"
    props = V.existing_props(["C19_match.v"])
    rule = ("subjects (numbers, strings, booleans, null, unset, objects, arrays of length 0-4 nested up to 3; from the document, a "
            "variable or a literal) x case lists of 1-5 cases with 1-3 alternatives each (patterns derived from the subject with "
            "near misses at every depth, or random: literals, identifiers at every position, nested array patterns), expression and "
            "block bodies that print a unique label and the bound names, a case whose pattern is not a supported pattern kind (an "
            "error iff reached), outer variables of the same names set before and printed after; thorough adds every order of the "
            "alternatives. oracle: first case with a matching alternative, literal = '==', bindings visible in the body only, block "
            "body and no match yield null; plus every pair of 60 special subjects (NaN, +-Inf, -0, rounding results, numeric strings "
            "of every shape, booleans, null) x 27 literals, alone / inside array patterns / as a later alternative: the pattern "
            "matches exactly when == says so; plus match expressions evaluated 1-5 times (in a function, a loop, per record, unrolled) "
            "whose cases AFTER the matching one hold literal patterns that cannot be evaluated (strings with an escape other than "
            "\\n \\t \\\\ or a trailing backslash, numbers too large to read; alone, among alternatives, inside nested array "
            "patterns shaped after the subject): never touched, on the first and on every later evaluation, and a run-stopping "
            "fault when a top-level one is reached; plus bodies that yield a user function, a native function, a bound method of an "
            "array / string / number (dispatch tables over literal keys of every kind, called on the spot, returned from a function, out "
            "of a nested match, through a pattern-bound name), a container (the same container: a store through the result or straight "
            "through the match expression shows in the original only) or a regex (still matches), vs Python mirrors. "
            "non-trivial = >= 2 cases and >= 1 case with >= 2 alternatives")

    def generate(self, rng, tier):
        n = 1200 if tier == "quick" else 60000
        cases = []
        k = 0
        for subj, caselists in FIXED:
            cl = []
            for i, alts in enumerate(caselists):
                names = sorted(set(nm for al in caselists[:i + 1] for a in al for nm in pat_names(a, [])))
                cl.append({"alts": alts, "body": "exprlist" if names else "const", "label": "L%d" % i, "show": names, "const": float(i)})
            for via in ("lit", "var", "call") + (("doc",) if not V.has_unset(subj) else ()):
                cases.append(build(rng, "f%d" % k, subj, cl, via))
                k += 1
        progs = literal_agreement_programs(rng)
        if tier == "thorough":
            progs += literal_agreement_programs(rng, 5) + literal_agreement_programs(rng, 7)
        for j, (prog, what) in enumerate(progs):
            cid = "e%d" % j
            cases.append(Case(cid, simple_run(cid, prog, []), {"prog": prog, "agree": what}, True))
        for k in range(400 if tier == "quick" else 8000):
            c = build_fault(rng, "u%d" % k, rng.choice([1, 2, 3, 4]))
            if c is not None:
                cases.append(c)
        for k in range(n):
            subj = subject(rng, rng.choice([0, 1, 2, 2, 3, 3]))
            cl = make_cases(rng, subj)
            via = rng.choice(["lit", "var", "doc", "doc", "call"])
            if V.has_unset(subj) and via == "doc":
                via = "var"
            cases.append(build(rng, "m%d" % k, subj, cl, via))
            if tier == "thorough" and k % 10 == 0:
                # every order of the alternatives of the first case that has several
                for ci, c in enumerate(cl):
                    if len(c["alts"]) >= 2:
                        for pi, perm in enumerate(itertools.permutations(c["alts"])):
                            if pi == 0:
                                continue
                            cl2 = [dict(x) for x in cl]
                            cl2[ci]["alts"] = list(perm)
                            cases.append(build(rng, "m%dp%d" % (k, pi), subj, cl2, via))
                        break
        for k in range(340 if tier == "quick" else 8000):
            cases.append(build_yield(rng, "y%d" % k))
        return cases

    def oracle(self, case, impl):
        m = case.meta
        if "agree" in m and impl.outcome not in ("timeout", "noresult", "badcase"):
            lines = impl.stdout.decode("utf-8", "replace").splitlines()
            if impl.outcome != "ok" or len(lines) != len(m["agree"]):
                return "literal patterns vs ==: outcome %s, %d of %d lines printed" % (impl.outcome, len(lines), len(m["agree"]))
            for ln, (s_, l_, form) in zip(lines, m["agree"]):
                f = ln.split(" ")
                if len(f) != 3 or f[0] != "e" or f[1] not in ("true", "false") or f[2] != f[1]:
                    return "subject %s, literal pattern %s (%s): == says %s, match says %s" % (s_, l_, form, f[1] if len(f) > 1 else "?", f[2] if len(f) > 2 else "?")
            return None
        if "expect_stdout" not in m or impl.outcome in ("timeout", "noresult", "badcase"):
            return None
        got = impl.stdout.decode("utf-8", "replace")
        if impl.outcome != m["expect_outcome"] or got != m["expect_stdout"]:
            return "match (%s) { %s }: documented %s %r, implementation %s %r" % (
                m["subject"], " | ".join(m["cases"]), m["expect_outcome"], m["expect_stdout"], impl.outcome, got)
        return None


CHECK = C19()
