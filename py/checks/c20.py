"""C20: unbounded single steps are refused with an error, not by exhausting the process.

Boundary programs around the four limits (call nesting, array auto-fill, printf width, JSON input nesting),
each with output before the critical step.  The expected result is computed from the documented thresholds
and an explicit frame count of each recursion shape.  The call-depth limit itself is read from the generated
constant (coq/theories/Gen/Generated.v) so that the boundary moves with the source; it must still be "a few
thousand".  Cases that build arrays of 10^5..10^6 elements are run on the implementation only (extra())."""
import os, re, subprocess, resource
from framework import Check, Case
import jqlib
from jqlib import VERIF, simple_run, run_impl, RunRes
from checklib import ANY, abnormal, run_cli, Scratch, CliRes, pmap

FILL = 1 << 20          # documented: an index beyond 1024*1024 is not auto-filled
WIDTH = 65536           # documented: |width| > 65536 is refused
NEST = 10000            # encoding/json: more than 10000 nested containers is an error
MODEL_MAX_INDEX = 5000  # larger stores are run on the implementation only: the extracted model's arrays are lists
FEW_THOUSAND = 10000    # "call nesting beyond a fixed limit of a few thousand frames": 10000 frames are beyond it


def depth_limit():
    try:
        src = open(os.path.join(VERIF, "coq", "theories", "Gen", "Generated.v")).read()
        return int(re.search(r"Definition\s+call_depth_limit\s*:\s*Z\s*:=\s*([0-9]+)", src).group(1))
    except Exception:
        return 4096


# ------------------------------------------------------------------ recursion shapes: (functions, frames per level)
SHAPES = {
    "direct": ("function f(n) { if (n <= 1) { return 1 }\n return 1 + f(n - 1) }", 1),
    "direct-arg": ("function f(n, acc) { if (n <= 1) { return acc + 1 }\n return f(n - 1, acc + 1) }", 1),
    "mutual": ("function f(n) { if (n <= 1) { return 1 }\n return 1 + g(n - 1) }\nfunction g(n) { if (n <= 1) { return 1 }\n return f(n - 1) + 1 }", 1),
    "mutual3": ("function f(n) { if (n <= 1) { return 1 }\n return 1 + g(n - 1) }\nfunction g(n) { if (n <= 1) { return 1 }\n return 1 + h(n - 1) }\n"
                "function h(n, x) { if (n <= 1) { return 1 }\n x = [f(n - 1)]\n return x[0] + 1 }", 1),
    "match-expr": ("function f(n) { return match (n) { 1 => 1, _ => 1 + f(n - 1) } }", 2),
    "match-block": ("function f(n) { match (n) { 1 => { return 1 }, k => { return 1 + f(k - 1) } } }", 2),
    "loop-body": ("function f(n, i, r) { if (n <= 1) { return 1 }\n for (i = 0; i < 1; i++) { r = 1 + f(n - 1) }\n return r }", 1),
    "via-method-arg": ("function f(n, t) { if (n <= 1) { return 1 }\n t = []\n t.push(f(n - 1))\n return t[0] + 1 }", 1),
}
# how the recursion is entered: (template with %s for the call, extra frames already on the stack at the call)
ENTRIES = [
    ("BEGIN { print \"start\"\n print %s\n print \"done\" }", 0, []),
    ("END { print \"start\"\n print %s\n print \"done\" }", 0, ["[1]"]),
    ("{ print \"start\"\n print %s\n print \"done\" }", 0, ["[0]"]),
    ("function w1(n) { return %s }\nBEGIN { print \"start\"\n print w1(0)\n print \"done\" }", 1, []),
    ("function w1(n) { return w2(n) }\nfunction w2(n) { x = %s\n return x }\nBEGIN { print \"start\"\n print w1(0)\n print \"done\" }", 2, []),
    ("BEGIN { print \"start\"\n print match (1) { 1 => %s }\n print \"done\" }", 1, []),
    ("function w1(n) { return match (n) { 0 => match (1) { 1 => %s } } }\nBEGINFILE { print \"start\"\n print w1(0)\n print \"done\" }", 3, ["[0]"]),
]


def call_text(shape, d):
    return "f(%d, 0)" % d if shape == "direct-arg" else "f(%d)" % d


def recursion_case(shape, entry, d, L):
    funcs, per = SHAPES[shape]
    tmpl, extra, inputs = entry
    prog = funcs + "\n" + tmpl % call_text(shape, d)
    frames = extra + per * d
    if frames <= L:
        want = ("ok", "start\n%d\ndone\n" % d)
    else:
        want = ("runtime", "start\n")
    return prog, inputs, want, frames


RUNAWAY = [
    "function f() { f() }\nBEGIN { print \"start\"\n f()\n print \"done\" }",
    "function f(n) { return [f(n + 1)] }\nBEGIN { print \"start\"\n f(0)\n print \"done\" }",
    "function f(n) { return {k: f(n + 1)} }\n{ print \"start\"\n f(0)\n print \"done\" }",
    "function f(n) { print \"x\", f(n + 1) }\nEND { print \"start\"\n f(0)\n print \"done\" }",
    "function f(n) { return g(n) }\nfunction g(n) { return h(n) }\nfunction h(n) { return f(n) }\nBEGIN { print \"start\"\n f(0)\n print \"done\" }",
    "function f(n) { return match (n) { _ => f(n) } }\nBEGIN { print \"start\"\n f(0)\n print \"done\" }",
    "function f(n) { match (n) { q => { f(q) } } }\nBEGIN { print \"start\"\n f(0)\n print \"done\" }",
    "function f(n) { for (v in [1]) { f(n) } }\nBEGIN { print \"start\"\n f(0)\n print \"done\" }",
    "function f(n) { while (true) { f(n) } }\nBEGIN { print \"start\"\n f(0)\n print \"done\" }",
    "function f(n) { if (f(n)) { return 1 } }\nBEGINFILE { print \"start\"\n f(0)\n print \"done\" }",
    "function f(n) { return f(n) + f(n) }\nBEGIN { print \"start\"\n f(0)\n print \"done\" }",
    "function f(n) { return num(f(n)) }\nBEGIN { print \"start\"\n f(0)\n print \"done\" }",
    "function f(n) { x = [1]\n x[f(n)] = 1 }\nBEGIN { print \"start\"\n f(0)\n print \"done\" }",
    "function f(n) { return f }\nfunction g(n) { return g(n)(n) }\nBEGIN { print \"start\"\n g(0)\n print \"done\" }",
    "function f(a) { return f(a) }\nf($) { print \"body\" }\nBEGIN { print \"start\" }",
]


# ------------------------------------------------------------------ long sequential histories of jumps out of match case bodies
def _half_up(n):
    return (n + 1) // 2


def _alt(n):
    return ["[" + ",".join("01"[i % 2] for i in range(n)) + "]"]


# (name, program with @N, inputs(N), expected output between "start" and "done")
SEQUENTIAL = [
    ("return from a block case",
     "function kind(v) { match (v) { 0 => { return \"zero\" },\n n => { return \"other\" } } }\n"
     "BEGIN { print \"start\"\n for (i = 0; i < @N; i++) { if (kind(i % 3) == \"zero\") { z++ } }\n print z\n print \"done\" }",
     lambda n: [], lambda n: "%d\n" % ((n + 2) // 3)),
    ("continue in a block case",
     "BEGIN { print \"start\"\n for (i = 0; i < @N; i++) { match (i % 2) { 1 => { continue } }\n n++ }\n print n\n print \"done\" }",
     lambda n: [], lambda n: "%d\n" % _half_up(n)),
    ("continue in a block case, while loop",
     "BEGIN { print \"start\"\n while (k < @N) { k++\n match (k % 2) { 0 => { continue } }\n m++ }\n print m, k\n print \"done\" }",
     lambda n: [], lambda n: "%d %d\n" % (_half_up(n), n)),
    ("break in a block case",
     "BEGIN { print \"start\"\n for (i = 0; i < @N; i++) { for (j in [1, 2]) { match (j) { 1 => { break } }\n c++ }\n t++ }\n print c + 0, t\n print \"done\" }",
     lambda n: [], lambda n: "0 %d\n" % n),
    ("next in a block case",
     "BEGIN { print \"start\" }\n{ match ($ % 2) { 1 => { next } }\n n++ }\nEND { print n\n print \"done\" }",
     _alt, lambda n: "%d\n" % _half_up(n)),
    ("next in a block case inside a function",
     "function f(v) { match (v) { 1 => { next } }\n return v }\nBEGIN { print \"start\" }\n{ f($ % 2)\n n++ }\nEND { print n\n print \"done\" }",
     _alt, lambda n: "%d\n" % _half_up(n)),
    ("next out of an expression body",
     "function skip() { next }\nBEGIN { print \"start\" }\n{ y = match ($ % 2) { 1 => skip(),\n v => v }\n n++ }\nEND { print n\n print \"done\" }",
     _alt, lambda n: "%d\n" % _half_up(n)),
    ("return from a loop inside a block case",
     "function g(v) { match (v) { k => { for (e in [1, 2, 3]) { if (e == 2) { return e + k } } } } }\n"
     "BEGIN { print \"start\"\n for (i = 0; i < @N; i++) { s = s + g(1) }\n print s\n print \"done\" }",
     lambda n: [], lambda n: "%d\n" % (3 * n)),
    ("continue in a case inside a case",
     "BEGIN { print \"start\"\n for (i = 0; i < @N; i++) { match (i % 2) { 1 => { match (i % 3) { 0 => { continue } } } }\n n++ }\n print n\n print \"done\" }",
     lambda n: [], lambda n: "%d\n" % (n - len(range(3, n, 6)))),
    ("continue in a block case, for-in over a long array",
     "BEGIN { print \"start\"\n a[@N - 1] = 0\n for (e, i in a) { match (i % 2) { 1 => { continue } }\n n++ }\n print n\n print \"done\" }",
     lambda n: [], lambda n: "%d\n" % _half_up(n)),
    ("return without a value from a block case, result of the case used",
     "function h(v) { r = match (v) { 0 => { return },\n w => w + 1 }\n return r }\n"
     "BEGIN { print \"start\"\n for (i = 0; i < @N; i++) { if (h(i % 2) == null) { z++ } }\n print z\n print \"done\" }",
     lambda n: [], lambda n: "%d\n" % _half_up(n)),
]


# ------------------------------------------------------------------ array indexes
def go_int(x):
    """Go's int(float64) on amd64"""
    if x != x or abs(x) >= 2.0 ** 63:
        return -2 ** 63
    return int(x)


def index_store(arr, x):
    """documented effect of a[x] = 1 on the list arr; returns new list or None (= runtime error)"""
    i = go_int(x)
    n = len(arr)
    if i < 0:
        i += n
        if i < 0:
            return None
    if i >= n:
        if i > FILL:
            return None
        arr = arr + [None] * (i + 1 - n)
    arr = list(arr)
    arr[i] = 1
    return arr


def index_read(arr, x):
    """('ok', value) or None (runtime error)"""
    i = go_int(x)
    n = len(arr)
    if i < 0:
        i += n
        if i < 0:
            return None
    if i >= n:
        return ("ok", None)
    return ("ok", arr[i])


def num_text(x):
    if isinstance(x, int):
        return str(x) if x >= 0 else "(-%d)" % -x
    s = repr(x)
    if "e" in s or "E" in s:
        # no exponent syntax in the language: build the value arithmetically
        m, e = s.lower().split("e")
        body = "%s * %s" % (m.lstrip("-"), " * ".join(["10"] * int(e))) if int(e) < 40 else None
        return None if body is None else ("(-(%s))" % body if x < 0 else "(%s)" % body)
    return s if x >= 0 else "(-%s)" % s[1:]


def pretty_num(v):
    return "null" if v is None else str(v)


# ------------------------------------------------------------------ arrays CREATED by the assignment that indexes them
# a.b[X] = 1 with a.b missing: the assignment creates a.b as an empty array and stores at X in the same step.  The fill limit
# holds for that store as for any other: X beyond the limit is refused (runtime error, prior output kept), never allocated.
# (statement with %s for the index, expression whose length is printed afterwards, host, input with @X for the index or None)
NESTED_TARGETS = [
    ("a.b[%s] = 1", "a.b", "BEGIN", None),
    ("a = {}\n a.b[%s] = 1", "a.b", "BEGIN", None),
    ("a = {b: {}}\n a.b.c[%s] = 1", "a.b.c", "BEGIN", None),
    ("a.b.c[%s] = 1", "a.b.c", "BEGIN", None),
    ("a.b.c.d[%s] = 1", "a.b.c.d", "BEGIN", None),
    ("a['k'][%s] = 1", "a.k", "END", "[1]"),
    ("a.b['c'][%s] = 2", "a.b.c", "BEGIN", None),
    ("seen[0][%s] = 1", "seen[0]", "BEGIN", None),
    ("seen[2][%s] = 1", "seen[2]", "BEGIN", None),
    ("seen[1][1][%s] = 1", "seen[1][1]", "BEGIN", None),
    ("seen.x[0][%s] = 1", "seen.x[0]", "BEGIN", None),
    ("seen[0].x[%s] = 1", "seen[0].x", "BEGIN", None),
    ("seen[$index][%s] = 1", "seen[0]", "rule", "[5]"),
    ("seen[$index][$.id] = 1", "seen[0]", "rule", "[{\"id\": @X}]"),
    ("seen[$.k][$.id] = 1", "seen.key", "rule", "{\"k\": \"key\", \"id\": @X}"),
    ("$.new[%s] = 1", "$.new", "rule", "{\"id\": 1}"),
    ("$.new[$.id] = 1", "$.new", "rule", "{\"id\": @X}"),
    ("$.new.deeper[%s] = 1", "$.new.deeper", "rule", "{\"id\": 1}"),
    ("$.a.b.c[%s] = 1", "$.a.b.c", "BEGINFILE", "{\"a\": {}}"),
    ("$.new[0][%s] = 1", "$.new[0]", "BEGINFILE", "{\"id\": 1}"),
    ("$[1].l[%s] = 1", "$[1].l", "BEGINFILE", "[1, {}]"),
    ("a.b[%s] += 1", "a.b", "BEGIN", None),
    ("a.b[%s]++", "a.b", "BEGIN", None),
    ("y = ++a.b.c[%s]", "a.b.c", "BEGIN", None),
    ("a.b[%s].k = 1", "a.b", "BEGIN", None),
    ("a.b[%s][0] = 1", "a.b", "BEGIN", None),
    ("a.b[0][%s] = 1", "a.b[0]", "BEGIN", None),
    ("a.b[%s] = [1, 2]", "a.b", "BEGIN", None),
    ("function f(p) { p.q[%s] = 1\n return p }\nfunction g() { r = f({})\n return r.q }", "g()", "func", None),
    ("function f(p) { loc.al[%s] = 1\n return loc.al }", "f(1)", "func", None),
    ("for (i = 0; i < 2; i++) { m[i].v[%s] = 1 }", "m[1].v", "BEGIN", None),
    ("w = {}\n match (1) { q => { w.z[%s] = q } }", "w.z", "BEGIN", None),
]
NESTED_SMALL = [0, 1, 3, 1000, 0.5, 1.7, 2.9, -1, -2, -0.5, -1.5]
NESTED_BIG = [FILL - 1, FILL, FILL + 0.5, FILL + 1, FILL + 2, FILL + 1.5, 2 * FILL, 2000000, 10 ** 7, 10 ** 8, 10 ** 9, 2 ** 31 - 1, 2 ** 31, 2 ** 32 + 1,
              10 ** 10, 10 ** 10 + 0.5, 2 ** 40, 10 ** 12, 10 ** 15, 4 * 10 ** 15, 2 ** 53, 10 ** 18, 9.2e18, 2 ** 63, 10 ** 19, 1e300,
              -10 ** 9, -10 ** 15, -2 ** 40, -10 ** 19, -1e300, -(FILL + 1)]
MEM_CAP = 3 << 30       # address-space limit of one isolated run: an allocation sized by the index dies here, not on the machine


def nested_text(x):
    """(source text, JSON text) of an index"""
    if isinstance(x, float) and abs(x) >= 1e21:
        body = "(1 * %s)" % " * ".join(["1000000000"] * 34)
        return ("(-%s)" % body if x < 0 else body), ("-1e306" if x < 0 else "1e306")
    t = repr(x) if not (isinstance(x, float) and x == int(x)) else str(int(x))
    return ("(-%s)" % t[1:] if x < 0 else t), t


def nested_value(x):
    if isinstance(x, float) and abs(x) >= 1e21:
        return 1e306 if x > 0 else -1e306
    return float(x)


def nested_case(target, x):
    """(program, input text or None, (outcome, stdout)) of one store into an array created by the same assignment"""
    stmt, show, host, inp = target
    st, jt = nested_text(x)
    code = stmt % st if "%s" in stmt else stmt
    res = index_store([], nested_value(x))
    if host == "func":
        prog = code + "\nBEGIN { print \"start\"\n print %s.length()\n print \"done\" }" % show
    else:
        head = {"BEGIN": "BEGIN ", "END": "END ", "rule": "", "BEGINFILE": "BEGINFILE "}[host]
        prog = head + "{ print \"start\"\n %s\n print %s.length()\n print \"done\" }" % (code, show)
    want = ("ok", "start\n%d\ndone\n" % len(res)) if res is not None else ("runtime", "start\n")
    return prog, (inp.replace("@X", jt) if inp is not None else None), want


# ------------------------------------------------------------------ several wide fields in one printf call
MW_ARGS = {"s": ("\"x\"", "x"), "f": ("2.5", "2.5"), "v": ("[1]", "[1]")}


def multi_width_case(fields, calls=1):
    """fields: list of (width, verb, zero) with width possibly negative.  Every width within the limit => the call works."""
    fmt, args, out, ok = [], [], [], True
    for w, verb, zero in fields:
        src, text = MW_ARGS[verb]
        fmt.append("%" + ("-" if w < 0 else "") + ("0" if zero else "") + str(abs(w)) + verb)
        args.append(src)
        if abs(w) > WIDTH:
            ok = False
        pad = ("0" if zero else " ") * max(0, abs(w) - len(text))
        out.append(text + pad if w < 0 else pad + text)
    stmt = "printf(\"%s|\\n\", %s)" % ("|".join(fmt), ", ".join(args))
    prog = "BEGIN { print \"start\"\n " + "\n ".join([stmt] * calls) + "\n print \"done\" }"
    want = ("ok", "start\n" + ("|".join(out) + "|\n") * calls + "done\n") if ok else ("runtime", "start\n")
    total = sum(abs(w) for w, _, _ in fields)
    meta = {"limit": "printf width", "spec": "%d fields in one call, widths %s%s: every width %s, their sum is %d" % (
        len(fields), ",".join(str(w) for w, _, _ in fields[:20]), "..." if len(fields) > 20 else "",
        "within the limit" if ok else "NOT all within the limit", total), "calls": calls}
    return prog, want, meta, (total * calls > 70000 or len(prog) > 8000)


def multi_width_cases(rng, tier):
    quick = tier == "quick"
    S = lambda ws, verb="s": [(w, verb, False) for w in ws]
    lists = [S([4000] * 17), S([40000, -40000]), S([WIDTH, WIDTH]), S([WIDTH, 1]), S([WIDTH - 1, 2]), S([1, WIDTH]), S([-WIDTH, WIDTH, -WIDTH]),
             S([32768, 32768]), S([32768, 32769]), S([32769, -32769]), S([30000, 30000, 30000]), S([1000] * 100), S([30] * 3000),
             S([-4000] * 17), S([4000, -4000] * 9), S([40000, 40000], "v"), S([-40000, 40000], "f"), [(40000, "f", True), (40000, "f", True)],
             [(4000, rng.choice("sfv"), False) for _ in range(17)], S([WIDTH // 2 + 1] * 2), S([WIDTH // 3 + 1] * 3), S([WIDTH // 5 + 1] * 5),
             S([22000, 22000, 22000]), S([65000, 600]), S([600, 65000]),
             # one width beyond the limit among accepted ones: refused as before, whatever precedes it
             S([4000, WIDTH + 1]), S([WIDTH + 1, 4000]), S([40000, 40000, WIDTH + 1]), S([10, -(WIDTH + 1), 10])]
    for _ in range(8 if quick else 120):
        n = rng.randint(2, 24)
        target = rng.randint(WIDTH + 1, 3 * WIDTH)
        ws = []
        for i in range(n):
            w = min(WIDTH, max(1, int(target / n * rng.uniform(0.5, 1.5))))
            ws.append(w if rng.random() < 0.6 else -w)
        fields = []
        for w in ws:
            verb = rng.choice("ssfv")
            fields.append((w, verb, verb == "f" and w > 0 and rng.random() < 0.3))
        lists.append(fields)
    out = [multi_width_case(f) for f in lists]
    # the same over several calls of one run
    out.append(multi_width_case(S([40000]), calls=2))
    out.append(multi_width_case(S([30000, 30000]), calls=3))
    return out


def _cap_limits():
    try:
        resource.setrlimit(resource.RLIMIT_CORE, (0, 0))
        resource.setrlimit(resource.RLIMIT_AS, (MEM_CAP, MEM_CAP))
    except Exception:
        pass


def run_cli_capped(prog_path, stdin, timeout=60):
    """the real binary in a process of its own under an address-space cap"""
    try:
        p = subprocess.run([jqlib.JQAWK, "-f", prog_path], input=stdin, stdout=subprocess.PIPE, stderr=subprocess.PIPE,
                           timeout=timeout, preexec_fn=_cap_limits)
        return CliRes(p.returncode, p.stdout, p.stderr, False)
    except subprocess.TimeoutExpired as e:
        return CliRes(None, e.stdout or b"", e.stderr or b"", True)


class C20(Check):
    pid = "C20"
    props = ["C20_limits.v", "C20_width.v"]
    rule = ("boundary programs: recursion depth within +-2 of the call-depth limit for 8 recursion shapes (direct, accumulator, mutual 2/3, through "
            "match expression/block, through a loop body, through a method argument) x 7 ways of entering (rule kinds, helper frames, match "
            "frames), 15 runaway recursions; array index stores/reads at 2^20-1..2^20+2, negative, fractional, huge; the same indexes stored "
            "into an array that the assignment itself creates under 1-3 missing members (a.b[x], a.b.c.d[x], seen[i][x], $.new[x], "
            "the index taken from the input, += / ++ / nested stores, in functions / loops / match bodies; 32 targets), the huge "
            "ones through the jqawk binary in one memory-capped process each; printf widths "
            "65535..65537, 20 digits, negative, zero-padded; several wide fields in ONE printf (2-3000 fields, each width within the limit, "
            "their sum up to 3x beyond it: must work; one field beyond the limit among them: refused); JSON input nested 9999..10002 deep (arrays, objects, mixed); the documented "
            "'works' cases (1000-deep recursion, width 5000, 100000-element array). Output is printed before every critical step. "
            "non-trivial = within +-2 of a limit, or beyond it")

    def project(self, r):
        if r.outcome == "crash":
            return ANY
        return (r.outcome, r.stdout)

    # -------------------------------------------------------------- case construction
    def build(self, rng, tier):
        """returns (model_cases, impl_only_cases): lists of (prog, inputs, fuzz, want, meta, nontrivial)"""
        L = depth_limit()
        small, big = [], []
        quick = tier == "quick"
        # "a few thousand frames": recursion 1000 deep works (below), recursion 10000 deep is refused
        for shape in ("direct", "mutual", "match-expr"):
            dest = small if L < FEW_THOUSAND else big
            funcs, per = SHAPES[shape]
            prog = funcs + "\n" + ENTRIES[0][0] % call_text(shape, FEW_THOUSAND // per)
            dest.append((prog, [], True, ("runtime", "start\n"), {"limit": "call depth", "shape": shape, "depth": FEW_THOUSAND // per,
                                                                    "frames": FEW_THOUSAND, "note": "beyond 'a few thousand' frames"}, True))
        # with a limit far above the documented range the model (which follows the generated constant) would recurse that deep:
        # the recursion cases are then judged on the implementation alone
        rec = small if L < FEW_THOUSAND else big
        if not (1000 <= L < FEW_THOUSAND):
            L = max(1000, min(L, FEW_THOUSAND - 1))       # a limit outside the documented range is reported by the cases above / below

        # ---- recursion around the limit
        for shape, (funcs, per) in SHAPES.items():
            entries = ENTRIES if not quick else [ENTRIES[0]] + rng.sample(ENTRIES[1:], 2)
            for entry in entries:
                base = (L - entry[1]) // per
                for d in range(base - 2, base + 3):
                    if d < 1:
                        continue
                    prog, inputs, want, frames = recursion_case(shape, entry, d, L)
                    rec.append((prog, inputs, True, want, {"limit": "call depth", "shape": shape, "depth": d, "frames": frames, "L": L}, True))
            for d in (1, 2, 10, 1000 // per, max(3, L // 2 // per), L * 3, L * 100):
                prog, inputs, want, frames = recursion_case(shape, ENTRIES[0], d, L)
                if d >= L * 3 and shape in ("via-method-arg", "loop-body", "mutual3"):
                    continue
                rec.append((prog, inputs, True, want, {"limit": "call depth", "shape": shape, "depth": d, "frames": frames, "L": L}, d > L // per))
        for prog in RUNAWAY:
            inputs = ["[1]"]
            want = ("runtime", "start\n")
            rec.append((prog, inputs, True, want, {"limit": "call depth", "shape": "runaway"}, True))

        # ---- "everything up to the limit works normally": many SEQUENTIAL calls / iterations / records, never nested more than a few
        # frames deep, whose match case bodies end in every kind of jump (return, continue, break, next, a signal out of an
        # expression body).  A frame left behind by any of them would add up to the limit; the run must succeed with depth 0.
        LL = depth_limit()
        if not (1000 <= LL < FEW_THOUSAND):
            LL = 4096
        for si, (name, tmpl, inp_of, out_of) in enumerate(SEQUENTIAL):
            ns = [LL + 100 + rng.randint(0, 800), 2 * LL + 17, 3 * LL + rng.randint(1, 500)]
            if quick:
                ns = [rng.choice(ns)]
            for N in ns:
                prog = tmpl.replace("@N", str(N))
                inputs = inp_of(N)
                want = ("ok", "start\n" + out_of(N) + "done\n")
                meta = {"limit": "call depth", "shape": "sequential: " + name, "iterations": N, "nested_frames": "<= 4", "L": LL, "depth0": True}
                if len(str(inputs)) >= 500:
                    meta["input"] = "%d-element array" % N
                # the shorter input-free ones also go to the model; the rest is judged on the implementation alone
                dest = small if (not inputs and N < 2 * LL) else big
                dest.append((prog, inputs, False, want, meta, True))

        # ---- array indexes
        def store_prog(init, xt):
            return "BEGIN { print \"start\"\n a = %s\n a[%s] = 1\n print a.length()\n print \"done\" }" % (init, xt)

        def read_prog(init, xt):
            return "BEGIN { print \"start\"\n a = %s\n x = a[%s]\n print x, a.length()\n print \"done\" }" % (init, xt)

        inits = [("[]", []), ("[7, 8, 9]", [7, 8, 9])]
        idx_small = [0, 1, 2, 3, 4, 10, 1000, 4999, -1, -2, -3, -4, -5, 0.5, 1.7, 2.9, 3.5, -0.5, -1.5, -3.9, 1e18, 1e19, -1e18, 1e300, -1e300,
                     FILL + 1, FILL + 2, FILL * 2, 2000000, 10 ** 9, 2 ** 31, 2 ** 32 + 1, 2.0 ** 53, 9.2e18]
        idx_big = [FILL - 1, FILL, FILL + 0.5, 100000, 999999]
        for init_t, init_v in inits:
            for x in idx_small:
                xt = num_text(x)
                if xt is None:
                    xt = "(1 * %s)" % " * ".join(["1000000000"] * 34) if x > 0 else "(-1 * %s)" % " * ".join(["1000000000"] * 34)
                    x = 1e306 if x > 0 else -1e306
                res = index_store(init_v, x)
                want = ("ok", "start\n%d\ndone\n" % len(res)) if res is not None else ("runtime", "start\n")
                meta = {"limit": "array fill", "index": repr(x), "array": init_t, "op": "store"}
                near = isinstance(x, int) and abs(x - FILL) <= 2 or res is None
                (small if abs(x) <= MODEL_MAX_INDEX else big).append((store_prog(init_t, xt), [], True, want, meta, near))
                if abs(x) < 2.0 ** 63:
                    r = index_read(init_v, x)
                    want = ("ok", "start\n%s %d\ndone\n" % (pretty_num(r[1]), len(init_v))) if r else ("runtime", "start\n")
                    small.append((read_prog(init_t, xt), [], True, want, dict(meta, op="read"), x > FILL - 2 if isinstance(x, int) else False))
            for x in idx_big:
                res = index_store(init_v, x)
                want = ("ok", "start\n%d\ndone\n" % len(res)) if res is not None else ("runtime", "start\n")
                big.append((store_prog(init_t, num_text(x)), [], False, want, {"limit": "array fill", "index": repr(x), "array": init_t, "op": "store"}, True))
        # store through other paths: compound assignment, ++, nested, speculative creation, an input array
        for x in (FILL + 1, FILL + 5, 2000000):
            for stmt in ("a[%d] += 1", "a[%d]++", "y = ++a[%d]", "y = a[%d]--", "a[%d][0] = 1", "a[%d].k = 1", "b.list = a\n b.list[%d] = 1"):
                prog = "BEGIN { print \"start\"\n a = [1]\n %s\n print a.length()\n print \"done\" }" % (stmt % x)
                big.append((prog, [], True, ("runtime", "start\n"), {"limit": "array fill", "index": x, "op": stmt}, True))
            prog = "{ print \"start\"\n $[%d] = 1\n print \"done\" }" % x
            big.append((prog, ["[[1, 2]]"], True, ("runtime", "start\n"), {"limit": "array fill", "index": x, "op": "store into input"}, True))
            prog = "BEGIN { print \"start\"\n u[%d] = 1\n print \"done\" }" % x
            big.append((prog, [], True, ("runtime", "start\n"), {"limit": "array fill", "index": x, "op": "store into unset variable"}, True))
        # the fill limit holds for arrays that are already LARGE: the array is grown in one allowed step (or by pushes), then a
        # store beyond the limit must be refused whatever the current length, and a store up to the limit must work
        HALF = FILL // 2
        for n0 in (HALF - 1, HALF, HALF + 1, 600000, 786432, 1000000, FILL, FILL + 1):
            targets = sorted({FILL - 1, FILL, FILL + 1, FILL + 2, 2 * n0 - 1, 2 * n0, 2 * n0 + 1, 1500000, 2000000, 4000000})
            if quick:
                targets = [x for x in targets if x in (FILL, FILL + 1, 2 * n0, 1500000, 2000000)]
                targets = rng.sample(targets, min(3, len(targets))) + [x for x in (FILL + 1,) if n0 in (HALF + 1, FILL + 1)]
            for x in sorted(set(targets)):
                if x < n0:
                    continue
                for stmt in (("a[%d] = 2",) if quick and x not in (FILL + 1, 2000000) else ("a[%d] = 2", "a[%d] += 1", "a[%d]++", "a[%d].k = 1")):
                    st = stmt % x
                    prog = "BEGIN { print \"start\"\n a[%d] = 1\n print a.length()\n %s\n print a.length()\n print \"done\" }" % (n0 - 1, st)
                    if x > FILL:
                        want = ("runtime", "start\n%d\n" % n0)
                    else:
                        want = ("ok", "start\n%d\n%d\ndone\n" % (n0, max(n0, x + 1)))
                    big.append((prog, [], False, want, {"limit": "array fill", "index": x, "array": "%d elements" % n0, "op": st + " on a large array"}, True))
        # repeated doubling never gets past the limit; growth by pushes, then an indexed store; an input array
        big.append(("BEGIN { print \"start\"\n a[%d] = 1\n print a.length()\n a[2000000] = 2\n print a.length()\n a[4000000] = 3\n print a.length() }" % FILL, [], False,
                    ("runtime", "start\n%d\n" % (FILL + 1)), {"limit": "array fill", "op": "fill to the limit, then store beyond it twice"}, True))
        big.append(("BEGIN { print \"start\"\n a = []\n for (i = 0; i < 600000; i++) { a.push(i) }\n print a.length()\n a[1500000] = 1\n print a.length() }", [], False,
                    ("runtime", "start\n600000\n"), {"limit": "array fill", "op": "600000 pushes, then a store at 1500000"}, True))
        big.append(("BEGIN { print \"start\"\n a[599999] = 1\n b = a\n b[1500000] = 1\n print \"never\" }", [], False,
                    ("runtime", "start\n"), {"limit": "array fill", "op": "store beyond the limit through a second reference to a large array"}, True))
        big.append(("{ print \"start\"\n print $.length()\n $[1500000] = 1\n print \"never\" }", ["[[" + ",".join(["0"] * 600000) + "]]"], False,
                    ("runtime", "start\n600000\n"), {"limit": "array fill", "op": "600000-element input array, then a store at 1500000"}, True))
        big.append(("BEGIN { print \"start\"\n a[%d] = 1\n x = a[2000000]\n y = a[4000000]\n print x, y, a.length()\n print \"done\" }" % FILL, [], False,
                    ("ok", "start\nnull null %d\ndone\n" % (FILL + 1)), {"limit": "array fill", "op": "reads far beyond a full array"}, True))
        # the documented "works": a 100000-element array built three ways, a million-element array
        big.append(("BEGIN { print \"start\"\n for (i = 0; i < 100000; i++) { a[i] = i }\n print a.length(), a[99999]\n print \"done\" }", [], False,
                    ("ok", "start\n100000 99999\ndone\n"), {"limit": "array fill", "op": "100000 stores in a loop"}, True))
        big.append(("BEGIN { print \"start\"\n a = []\n for (i = 0; i < 100000; i++) { a.push(i) }\n print a.length(), a[-1]\n print \"done\" }", [], False,
                    ("ok", "start\n100000 99999\ndone\n"), {"limit": "array fill", "op": "100000 pushes"}, True))
        big.append(("{ n = n + $.length() }\nEND { print \"start\"\n print n\n print \"done\" }", ["[" + ",".join(["[1]"] * 100000) + "]"], False,
                    ("ok", "start\n100000\ndone\n"), {"limit": "array fill", "op": "100000-element input array"}, True))

        # ---- printf widths
        for w in (WIDTH - 1, WIDTH, WIDTH + 1, WIDTH + 2, WIDTH * 10, 99999999999999999999, 5000, 1000, 1,
                  2 ** 31 - 1, 2 ** 31, 2 ** 32, 2 ** 32 + 1, 2 ** 63 - 1, 2 ** 63, 2 ** 63 + 1, 2 ** 64, 2 ** 64 + 5):
            for sign in ("", "-"):
                for verb, arg, text in (("s", "\"x\"", "x"), ("f", "2.5", "2.5"), ("v", "[1]", "[1]")):
                    for zero in (("", "0") if verb == "f" and w < WIDTH * 10 and not sign else ("",)):
                        spec = "%" + sign + zero + str(w) + verb
                        prog = "BEGIN { print \"start\"\n printf(\"%s|\\n\", %s)\n print \"done\" }" % (spec, arg)
                        if w > WIDTH:
                            want = ("runtime", "start\n")
                        else:
                            pad = (zero or " ") * (w - len(text))
                            want = ("ok", "start\n" + (text + pad if sign else pad + text) + "|\ndone\n")
                        small.append((prog, [], True, want, {"limit": "printf width", "spec": spec}, abs(w - WIDTH) <= 2 or w > WIDTH))

        # ---- JSON input nesting
        progn = "BEGINFILE { print \"value\" }\n{ c++ }\nEND { print \"vals\", c }"
        for d in (NEST - 1, NEST, NEST + 1, NEST + 2, NEST * 3, 100, 5000):
            for kind in ("array", "object", "mixed", "array-with-siblings"):
                if kind == "array":
                    deep = "[" * d + "]" * d
                elif kind == "object":
                    deep = "{\"a\":" * (d - 1) + "{}" + "}" * (d - 1)
                elif kind == "mixed":
                    deep = "".join("[" if i % 2 == 0 else "{\"k\":" for i in range(d - 1)) + "[]" + "".join("]" if i % 2 == 0 else "}" for i in reversed(range(d - 1)))
                else:
                    deep = "[1," * (d - 1) + "[2]" + ",3]" * (d - 1)
                for before in ("", "[5]\n"):
                    text = before + deep + "\n[1]"
                    if d <= NEST:
                        nvals = (2 if before else 1) + 1
                        # activations of the pattern rule: one per element of an array root, one for an object root
                        first = 0 if deep in ("[]",) else (1 if kind != "array-with-siblings" else (3 if d > 1 else 1))
                        if kind == "object":
                            first = 1
                        acts = (1 if before else 0) + first + 1
                        want = ("ok", "value\n" * nvals + "vals %d\n" % acts)
                    else:
                        want = ("json", "value\n" if before else "")
                    small.append((progn, [text], True, want, {"limit": "json nesting", "depth": d, "kind": kind, "value_before": bool(before),
                                                              "input": "(%d bytes)" % len(text)}, abs(d - NEST) <= 2 or d > NEST))
        # arrays created by the assignment that indexes them (a.b[x] = 1 with a.b missing), small indexes: model and implementation
        for target in NESTED_TARGETS:
            for x in (NESTED_SMALL if not quick else rng.sample(NESTED_SMALL, 3)):
                prog, inp, want = nested_case(target, x)
                small.append((prog, [inp] if inp is not None else [], True, want,
                              {"limit": "array fill", "index": repr(x), "op": target[0].replace("%s", nested_text(x)[0]) + " (the array is created by this assignment)"},
                              want[0] == "runtime"))
        return small, big

    def generate(self, rng, tier):
        small, big = self.build(rng, tier)
        cases = []
        for k, (prog, inputs, fuzz, want, meta, nontrivial) in enumerate(small):
            cid = "b%d" % k
            meta = dict(meta, prog=prog if len(prog) < 2000 else prog[:2000] + "...", want=list(want))
            if "input" not in meta:
                meta["inputs"] = inputs
            cases.append(Case(cid, simple_run(cid, prog, inputs, [], fuzz), meta, nontrivial))
        self._big = []
        for k, (prog, inputs, fuzz, want, meta, nontrivial) in enumerate(big):
            cid = "g%d" % k
            meta = dict(meta, prog=prog, want=list(want), impl_only="too heavy for the extracted model: implementation only")
            if len(str(inputs)) < 500:
                meta["inputs"] = inputs
            c = Case(cid, None, meta, nontrivial, ("big",))
            self._big.append((c, simple_run(cid, prog, inputs, [], fuzz)))
            cases.append(c)
        # stores at huge / negative / fractional indexes into arrays created by the same assignment: the real binary, one capped
        # process per case (an allocation sized by the index must die alone)
        self._nested = []
        k = 0
        for target in NESTED_TARGETS:
            xs = NESTED_BIG
            if tier == "quick":
                xs = [FILL + 1, 10 ** 9, 10 ** 15] + rng.sample(NESTED_BIG, 4)
            for x in xs:
                prog, inp, want = nested_case(target, x)
                cid = "n%d" % k
                k += 1
                c = Case(cid, None, {"limit": "array fill", "index": repr(x), "op": target[0].replace("%s", nested_text(x)[0]) + " (the array is created by this assignment)", "prog": prog,
                                     "input": inp, "want": list(want), "how": "jqawk binary, RLIMIT_AS %d MiB" % (MEM_CAP >> 20)}, True, ("nested-cli",))
                self._nested.append((c, prog, inp, want))
                cases.append(c)
        # SEVERAL wide fields in one printf: the limit is on each width, not on what one call (or one run) pads in total
        for k, (prog, want, meta, heavy) in enumerate(multi_width_cases(rng, tier)):
            cid = "w%d" % k
            meta = dict(meta, prog=prog if len(prog) < 3000 else prog[:3000] + "...", want=list(want), inputs=[])
            if heavy:
                c = Case(cid, None, dict(meta, impl_only="too much output for the extracted model: implementation only"), True, ("big",))
                self._big.append((c, simple_run(cid, prog, [], [], True)))
                cases.append(c)
            else:
                cases.append(Case(cid, simple_run(cid, prog, [], [], True), meta, True))
        return cases

    def oracle(self, case, impl):
        if impl.outcome in ("timeout", "noresult", "badcase"):
            return None
        why = abnormal(impl)
        if why:
            return "%s limit: %s" % (case.meta.get("limit"), why)
        if "want" not in case.meta:
            return None
        want = (case.meta["want"][0], case.meta["want"][1].encode())
        got = (impl.outcome, impl.stdout)
        if got == want and case.meta.get("depth0") and impl.outcome == "ok" and impl.depth not in ("0", "?"):
            return "call depth limit: %s frames are still on the stack after a run that never nested more than a few calls" % impl.depth
        if got != want:
            def short(b):
                return b if len(b) < 200 else b[:80] + b"...(%d bytes)..." % len(b) + b[-40:]
            return "%s limit: documented %s %r, implementation %s %r" % (case.meta.get("limit"), want[0], short(want[1]), got[0], short(got[1]))
        return None

    def extra(self, ctx):
        viol, stats = [], {}
        L = depth_limit()
        # the array cases with 10^5..10^6 elements: implementation only, one process per case
        big = getattr(self, "_big", [])
        res = run_impl([line for _, line in big], timeout=300, jobs=4) if big else {}
        for c, line in big:
            r = RunRes(res.get(c.id, []))
            if r.outcome in ("crash", "noresult"):
                # a batch that was killed (time) blames its first unfinished case: confirm on its own
                r = RunRes(run_impl([line], timeout=900).get(c.id, []))
            why = self.oracle(c, r)
            if why:
                viol.append((Case(c.id, line if len(line) < 100000 else None, c.meta, True, c.tags), why))
        stats["impl_only_cases"] = len(big)
        # arrays created by the assignment that indexes them, huge indexes: capped processes of the real binary
        nested = getattr(self, "_nested", [])
        if nested:
            with Scratch() as sc:
                jobs = [(c, sc.file(prog), (inp or "").encode(), want) for c, prog, inp, want in nested]
                results = pmap(lambda j: run_cli_capped(j[1], j[2]), jobs, jobs=8)
                for (c, path, stdin, want), res in zip(jobs, results):
                    if res.timed_out:
                        continue
                    why = res.why_bad()
                    exp = (0 if want[0] == "ok" else 1, want[1].encode())
                    if not why and (res.rc, res.out) != exp:
                        why = "documented exit status %d and stdout %r, got %d and %r" % (exp[0], exp[1][:60], res.rc, res.out[:60])
                    if why:
                        meta = dict(c.meta, exit_status=res.rc, stdout=res.out[:200].decode("utf-8", "replace"), stderr=res.err[:400].decode("utf-8", "replace"))
                        viol.append((Case(c.id, None, meta, True, c.tags), "array fill limit, store into an array the assignment creates (%s, index %s): %s"
                                     % (c.meta["op"].split(" (")[0].replace("\n", "; "), c.meta["index"], why)))
            stats["nested_creation_cli_runs"] = len(nested)
        # through the binary: the limits end in exit status 1 and a diagnostic, never a trace
        probes = [
            ("function f(n) { return f(n + 1) }\nBEGIN { print \"start\"\n f(0) }", b"", 1, b"start\n"),
            ("BEGIN { print \"start\"\n a[%d] = 1 }" % (FILL + 1), b"", 1, b"start\n"),
            ("BEGIN { print \"start\"\n a[%d] = 1\n print a.length() }" % FILL, b"", 0, b"start\n%d\n" % (FILL + 1)),
            ("BEGIN { print \"start\"\n printf(\"%%%ds\", 1) }" % (WIDTH + 1), b"", 1, b"start\n"),
            ("BEGINFILE { print \"value\" }", b"[1]\n" + b"[" * (NEST + 1) + b"]" * (NEST + 1), 1, b"value\n"),
            ("BEGINFILE { print \"value\" }", b"[1]\n" + b"[" * NEST + b"]" * NEST, 0, b"value\nvalue\n"),
            ("function f(n) { if (n <= 1) { return 1 }\n return 1 + f(n - 1) }\nBEGIN { print f(1000) }", b"", 0, b"1000\n"),
        ]
        with Scratch() as sc:
            for prog, stdin, rc, out in probes:
                res = run_cli(["-f", sc.file(prog)], stdin, timeout=60)
                why = res.why_bad()
                if not why and not res.timed_out and (res.rc, res.out) != (rc, out):
                    why = "documented exit status %d and stdout %r, got %d and %r" % (rc, out[:80], res.rc, res.out[:80])
                if why:
                    viol.append((Case("cli-limit", None, {"prog": prog, "stdin_bytes": len(stdin), "stderr": res.err[:300].decode("utf-8", "replace")},
                                      True, ("cli",)), "jqawk binary: " + why))
        stats["cli_probes"] = len(probes)
        # the known stack exhaustion (F-C20-stack): call depth is limited, expression nesting is not
        prog = "function f(x) { return " + "!" * 60000 + "f(x) }\nBEGIN { f(1) }"
        meta = {"prog": "function f(x) { return !!!...(60000 times)...f(x) }\\nBEGIN { f(1) }", "bytes": len(prog)}
        r = RunRes(run_impl([simple_run("stk", prog, [], [], True)], timeout=120).get("stk", []))
        why = abnormal(r)
        if why:
            viol.append((Case("stack-probe-lib", None, meta, True, ("F-C20-stack",)), "deeply nested expression in a recursive function: " + why))
        elif r.outcome != "runtime":
            viol.append((Case("stack-probe-lib", None, meta, True, ("stack-probe",)), "runaway recursion ended with outcome %s" % r.outcome))
        with Scratch() as sc:
            res = run_cli(["-f", sc.file(prog)], b"", timeout=120)
        why = res.why_bad()
        if why:
            viol.append((Case("stack-probe-cli", None, dict(meta, exit_status=res.rc, stderr=res.err[:200].decode("utf-8", "replace")), True,
                              ("F-C20-stack",)), "deeply nested expression in a recursive function, jqawk binary: " + why))
        # the same shape with an everyday expression depth (30): must be an ordinary runtime error
        prog2 = "function f(x) { return " + "!" * 30 + "f(x) }\nBEGIN { print \"start\"\n f(1) }"
        r = RunRes(run_impl([simple_run("stk2", prog2, [], [], True)], timeout=120).get("stk2", []))
        if (r.outcome, r.stdout) != ("runtime", b"start\n") and r.outcome not in ("timeout", "noresult"):
            viol.append((Case("stack-probe-30", simple_run("stk2", prog2, [], [], True), {"prog": prog2}, True, ("stack-probe",)),
                         "runaway recursion with an expression nested 30 deep: %s %r" % (abnormal(r) or r.outcome, r.stdout)))
        if not (1000 <= L < FEW_THOUSAND):
            viol.append((Case("limit", None, {"call_depth_limit": L}, True), "the call-depth limit is %d: not 'a few thousand' frames" % L))
        return viol, stats

    def known_finding(self, case, why):
        if case is not None and "F-C20-stack" in case.tags:
            return "F-C20-stack"
        return None


CHECK = C20()
