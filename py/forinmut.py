"""for-in loops whose body changes the very collection being iterated (C07).

The documented behaviour (what the unchanged code does and the model states): the loop visits the elements that
were there when the loop started, each exactly once, in order; the body's changes to the collection (push, pop,
popfirst, element stores, auto-fill, reassigning the variable, `for (x in x)`) do not add or remove visits.  An
element's VALUE is read when it is visited, so a store into a later element is seen.

The reference below keeps an array as a growing list of cells plus a window [s, e): pop / popfirst shrink the
window, push / auto-fill append.  One combination is left to the model alone (`exact` becomes False and the case
carries no expectation): an append after a pop during the loop -- arrays are Go slices, the appended element then
lands on the popped element's place.  Growing an OBJECT while it is iterated is model-only as well."""
import pyref
from pyref import UNSET, RuntimeErr


def lit(v):
    """source text of a value; object keys are written as strings"""
    if isinstance(v, dict):
        return "{" + ", ".join('"%s": %s' % (k, lit(x)) for k, x in v.items()) + "}"
    if isinstance(v, list):
        return "[" + ", ".join(lit(x) for x in v) + "]"
    return pyref.literal(v)


class Inexact(Exception):
    """the program left the family whose result follows from the documentation alone"""


class Discard(Exception):
    """not a program of the family at all (e.g. an array method on a number)"""


class Arr:
    def __init__(self, vals):
        self.u = [[v] for v in vals]
        self.s = 0
        self.e = len(vals)
        self.shrunk = False         # a pop happened: an append would reuse the popped slot

    def __len__(self):
        return self.e - self.s

    def values(self):
        return [c[0] for c in self.u[self.s:self.e]]

    def push(self, v):
        if self.e < len(self.u):
            raise Inexact()
        self.u.append([v])
        self.e += 1

    def pop(self):
        if len(self) == 0:
            return None
        self.e -= 1
        return self.u[self.e][0]

    def popfirst(self):
        if len(self) == 0:
            return None
        self.s += 1
        return self.u[self.s - 1][0]

    def store(self, j, v):
        if not isinstance(j, float):
            raise Discard()
        i = pyref.trunc_int64(j)
        n = len(self)
        if i < 0:
            i += n
            if i < 0:
                raise RuntimeErr("index out of range")
        if i >= n:
            if i > 5000:
                raise Discard()
            if self.e < len(self.u):
                raise Inexact()
            while len(self) <= i:
                self.u.append([None])
                self.e += 1
        self.u[self.s + i][0] = v


class _Brk(Exception):
    pass


class _Cnt(Exception):
    pass


def show(v):
    if isinstance(v, Arr):
        return pyref.pretty(v.values())
    return pyref.pretty(v)


class Ref:
    """interpreter of one mutation program (see build() for the statement forms)"""

    def __init__(self, holder_init):
        self.env = {}
        self.h = self.conv(holder_init)
        self.out = []
        self.exact = True
        self.steps = 0

    @staticmethod
    def conv(v):
        return Arr(v) if isinstance(v, list) else (dict(v) if isinstance(v, dict) else v)

    def ev(self, e):
        k = e[0]
        if k == "c":
            return e[1]
        if k == "v":
            return self.env.get(e[1], UNSET)
        if k == "len":
            if isinstance(self.h, Arr):
                return float(len(self.h))
            raise Discard()
        if k == "+":
            a, b = self.ev(e[1]), self.ev(e[2])
            if isinstance(a, (Arr, dict)) or isinstance(b, (Arr, dict)):
                raise Discard()
            return pyref.binop("+", a, b)
        raise ValueError(e)

    def cond(self, c):
        a = self.ev(c[1])
        if isinstance(a, (Arr, dict)):
            raise Discard()
        if c[0] == "==":
            return pyref.binop("==", a, c[2])
        if c[0] == "%":
            return pyref.binop("==", pyref.binop("%", a, 2.0), c[2])
        if c[0] == "<":
            return pyref.binop("<", a, c[2])
        raise ValueError(c)

    def arr(self):
        if not isinstance(self.h, Arr):
            raise Discard()
        return self.h

    def st(self, s):
        self.steps += 1
        if self.steps > 3000:
            raise Discard()
        k = s[0]
        if k == "push":
            self.arr().push(self.scalar(self.ev(s[1])))
        elif k == "pop":
            self.out.append("p " + show(self.arr().pop()))
        elif k == "popfirst":
            self.out.append("p " + show(self.arr().popfirst()))
        elif k == "store":
            j, v = self.ev(s[1]), self.scalar(self.ev(s[2]))
            self.arr().store(j, v)
        elif k == "oset":
            if not isinstance(self.h, dict):
                raise Discard()
            v = self.scalar(self.ev(s[2]))
            if s[1] not in self.h:
                self.exact = False          # growing the iterated object: model only
            self.h[s[1]] = v
        elif k == "sapp":
            if not isinstance(self.h, str):
                raise Discard()
            self.h = self.h + s[1]
        elif k == "reassign":
            self.h = self.conv(s[1])
        elif k == "if":
            if self.cond(s[1]):
                self.st(s[2])
        elif k == "break":
            raise _Brk()
        elif k == "continue":
            raise _Cnt()
        elif k == "for":
            self.loop(s[1], s[2], s[3], s[4])
        else:
            raise ValueError(s)

    @staticmethod
    def scalar(v):
        if isinstance(v, (Arr, dict)) or v is UNSET:
            raise Discard()
        return v

    def loop(self, var, ix, tag, body):
        it = self.h
        if isinstance(it, Arr):
            cells = list(range(it.s, it.e))
            u = it.u
            visits = [(lambda p=p: u[p][0], float(i)) for i, p in enumerate(cells)]
        elif isinstance(it, dict):
            keys = sorted(it, key=lambda z: z.encode())
            visits = [(k, (lambda k=k: it.get(k))) for k in keys]
        elif isinstance(it, str):
            visits, off = [], 0
            for ch in it:
                visits.append((ch, float(off)))
                off += len(ch.encode())
        else:
            raise Discard()
        for a, b in visits:
            if isinstance(it, Arr):
                if ix:
                    self.env[ix] = b
                self.env[var] = a()
            elif isinstance(it, dict):
                if ix:
                    self.env[ix] = b()
                self.env[var] = a
            else:
                if ix:
                    self.env[ix] = b
                self.env[var] = a
            self.env["n"] = pyref.num(self.env.get("n", UNSET)) + 1
            self.out.append(" ".join([tag, show(self.env[var])] + ([show(self.env[ix])] if ix else [])))
            try:
                for s in body:
                    self.st(s)
            except _Brk:
                break
            except _Cnt:
                continue


# ---------------------------------------------------------------- source text

def ex_src(e, H):
    k = e[0]
    if k == "c":
        return lit(e[1])
    if k == "v":
        return e[1]
    if k == "len":
        return "%s.length()" % H
    if k == "+":
        return "%s + %s" % (ex_src(e[1], H), ex_src(e[2], H))
    raise ValueError(e)


def cond_src(c, H):
    if c[0] == "==":
        return "%s == %s" % (ex_src(c[1], H), lit(c[2]))
    if c[0] == "%":
        return "%s %% 2 == %s" % (ex_src(c[1], H), lit(c[2]))
    return "%s < %s" % (ex_src(c[1], H), lit(c[2]))


def st_src(s, H, ind):
    pad = " " * ind
    k = s[0]
    if k == "push":
        return pad + "%s.push(%s)" % (H, ex_src(s[1], H))
    if k in ("pop", "popfirst"):
        return pad + 'print "p", %s.%s()' % (H, k)
    if k == "store":
        return pad + "%s[%s] = %s" % (H, ex_src(s[1], H), ex_src(s[2], H))
    if k == "oset":
        return pad + '%s["%s"] = %s' % (H, s[1], ex_src(s[2], H))
    if k == "sapp":
        return pad + '%s = %s + "%s"' % (H, H, s[1])
    if k == "reassign":
        return pad + "%s = %s" % (H, lit(s[1]))
    if k == "if":
        return pad + "if (%s) {\n%s\n%s}" % (cond_src(s[1], H), st_src(s[2], H, ind + 2), pad)
    if k in ("break", "continue"):
        return pad + k
    if k == "for":
        return loop_src(s[1], s[2], s[3], s[4], H, ind)
    raise ValueError(s)


def loop_src(var, ix, tag, body, H, ind):
    pad = " " * ind
    vs = var if not ix else "%s, %s" % (var, ix)
    lines = [pad + "for (%s in %s) {" % (vs, H), pad + "  n++",
             pad + '  print "%s", %s' % (tag, vs)]
    lines += [st_src(s, H, ind + 2) for s in body]
    lines.append(pad + "}")
    return "\n".join(lines)


# ---------------------------------------------------------------- generation

ELEMS = [1.0, 2.0, 3.0, 5.0, 8.0, 0.0, "a", "b", "", True, None, 2.5]


def gen_value(rng):
    w = rng.random()
    if w < 0.35:
        return ("c", rng.choice([7.0, 9.0, 11.0, "s", "new", False, None]))
    if w < 0.6:
        return ("+", ("v", "n"), ("c", 100.0))
    if w < 0.85:
        return ("+", ("v", "x"), ("c", 10.0))
    return ("v", "x")


def gen_guard(rng, s, ix, always=0.35):
    w = rng.random()
    if w < always:
        return s
    if w < 0.6:
        return ("if", ("==", ("v", "n"), float(rng.randint(1, 4))), s)
    if w < 0.8:
        return ("if", ("%", ("v", "n"), float(rng.randint(0, 1))), s)
    if ix and w < 0.9:
        return ("if", ("<", ("v", ix), float(rng.randint(1, 3))), s)
    return ("if", ("<", ("v", "n"), float(rng.randint(2, 5))), s)


def gen_index(rng, ix):
    w = rng.random()
    if w < 0.3:
        return ("c", float(rng.randint(0, 3)))
    if w < 0.45:
        return ("c", float(-rng.randint(1, 3)))
    if ix and w < 0.6:
        return ("v", ix)
    if ix and w < 0.75:
        return ("+", ("v", ix), ("c", 1.0))
    if w < 0.85:
        return ("len",)
    if w < 0.92:
        return ("+", ("len",), ("c", float(rng.randint(1, 2))))
    return ("c", rng.choice([0.5, 1.7]))


def array_op(rng, group, ix):
    """one array operation of the group: grow | shrink | reassign | mixed"""
    if group == "grow":
        k = rng.choice(["push", "push", "push", "store", "store"])
    elif group == "shrink":
        k = rng.choice(["pop", "popfirst", "pop", "popfirst", "storein"])
    elif group == "reassign":
        k = rng.choice(["reassign", "reassign", "push", "pop"])
    else:
        k = rng.choice(["push", "pop", "popfirst", "store", "reassign", "push", "pop"])
    if k == "push":
        return ("push", gen_value(rng))
    if k in ("pop", "popfirst"):
        return (k,)
    if k == "store":
        return ("store", gen_index(rng, ix), gen_value(rng))
    if k == "storein":
        return ("store", rng.choice([("c", 0.0), ("c", -1.0), ("c", 1.0)]), gen_value(rng))
    return ("reassign", rng.choice([[7.0, 8.0], [], [1.0, 2.0, 3.0, 4.0, 5.0, 6.0], 5.0, None, "str", {"k": 1.0}, True]))


def build(rng, kind=None, group=None):
    """one program: returns dict(prog, input or None, want (outcome, stdout) or None, what)"""
    kind = kind or rng.choice(["array"] * 6 + ["object", "object", "string"])
    host = rng.choice(["begin", "begin", "member", "doc", "func"])
    ix = "i" if rng.random() < 0.55 else None
    if kind == "array":
        group = group or rng.choice(["grow", "grow", "shrink", "shrink", "reassign", "mixed"])
        init = [rng.choice(ELEMS) for _ in range(rng.choice([0, 1, 2, 3, 3, 4, 4, 5]))]
        body = [gen_guard(rng, array_op(rng, group, ix), ix) for _ in range(rng.choice([1, 1, 2, 2, 3]))]
        if rng.random() < 0.2:
            # the same array in a nested loop
            inner = [gen_guard(rng, array_op(rng, group, None), None, 0.1) for _ in range(rng.choice([0, 1]))]
            body.insert(rng.randint(0, len(body)), ("for", "y", None, "w", inner))
    elif kind == "object":
        group = group or "object"
        keys = rng.sample(["b", "a", "k", "Z", "é", "10", "9"], rng.randint(0, 4))
        init = {k: float(i + 1) for i, k in enumerate(keys)}
        body = []
        for _ in range(rng.choice([1, 2, 2])):
            w = rng.random()
            if w < 0.45 and keys:
                op = ("oset", rng.choice(keys), gen_value(rng))
            elif w < 0.75:
                op = ("oset", rng.choice(["new", "A", "zz", "0"]), gen_value(rng))
            else:
                op = ("reassign", rng.choice([{"q": 1.0}, {}, 5.0, None, [1.0], "s"]))
            body.append(gen_guard(rng, op, None))
    else:
        group = group or "string"
        init = rng.choice(["", "a", "héy", "€x", "abc", "日本"])
        body = [gen_guard(rng, rng.choice([("sapp", "!"), ("sapp", "zz"), ("reassign", rng.choice(["", "other", 5.0, None, [1.0, 2.0]]))]), None)
                for _ in range(rng.choice([1, 2]))]
    if rng.random() < 0.25:
        body.append(gen_guard(rng, (rng.choice(["break", "continue"]),), ix, 0.0))
        if rng.random() < 0.5:
            body.append(("push", ("c", 1.0)) if kind == "array" and group in ("grow", "mixed") else ("if", ("==", ("v", "n"), 99.0), ("continue",)))
    loop = ("for", "x", ix, "v", body)

    ref = Ref(init)
    want = None
    try:
        try:
            ref.st(loop)
            outcome = "ok"
        except RuntimeErr:
            outcome = "runtime"
        if outcome == "ok":
            ref.out.append(" ".join(["after", show(ref.h)] + [show(ref.env.get(v, UNSET)) for v in ["x"] + ([ix] if ix else []) + ["n"]]))
        if ref.exact:
            want = (outcome, "".join(l + "\n" for l in ref.out))
    except Inexact:
        want = None
    except Discard:
        return None

    H = {"begin": "a", "member": "o.l", "doc": "$.l", "func": "p"}[host]
    after = 'print "after", %s, %s' % (H, ", ".join(["x"] + ([ix] if ix else []) + ["n"]))
    text = st_src(loop, H, 2)
    inp = None
    lt = lit(init)
    if host == "begin":
        prog = "BEGIN {\n  a = %s\n%s\n  %s\n}" % (lt, text, after)
    elif host == "member":
        prog = "BEGIN {\n  o = {l: %s, m: 1}\n%s\n  %s\n}" % (lt, text, after)
    elif host == "doc":
        import json
        inp = json.dumps({"l": init}, ensure_ascii=False)
        prog = "{\n%s\n  %s\n}" % (text, after)
    else:
        prog = "function f(p) {\n%s\n  %s\n}\nBEGIN {\n  f(%s)\n}" % (text, after, lt)
    return {"prog": prog, "input": inp, "want": want, "what": "for-in over %s %s, body changes it (%s)" % (kind, H, group),
            "visits": len([l for l in ref.out if l.startswith("v ")])}


# `for (x in x)` and friends: the loop variable (or the index variable) IS the iterated variable
def self_loops(rng):
    out = []
    arr = [rng.choice([1.0, 2.0, 3.0, 5.0, "a", "b", True, None, 2.5]) for _ in range(rng.randint(1, 5))]
    la = lit(arr)
    P = pyref.pretty
    vis = "".join("v %s\n" % P(e) for e in arr)
    visi = "".join("v %s %s\n" % (P(e), P(float(i))) for i, e in enumerate(arr))
    last, lasti = P(arr[-1]), P(float(len(arr) - 1))
    out.append(("BEGIN {\n  x = %s\n  for (x in x) {\n    print \"v\", x\n  }\n  print \"after\", x\n}" % la, vis + "after %s\n" % last))
    out.append(("BEGIN {\n  x = %s\n  for (x, i in x) {\n    print \"v\", x, i\n  }\n  print \"after\", x, i\n}" % la, visi + "after %s %s\n" % (last, lasti)))
    out.append(("BEGIN {\n  i = %s\n  for (x, i in i) {\n    print \"v\", x, i\n  }\n  print \"after\", x, i\n}" % la, visi + "after %s %s\n" % (last, lasti)))
    out.append(("function f(x) {\n  for (x in x) {\n    print \"v\", x\n  }\n  return x\n}\nBEGIN {\n  a = %s\n  print \"after\", f(a), a\n}" % la,
                vis + "after %s %s\n" % (last, P(arr))))
    out.append(("BEGIN {\n  x = %s\n  for (x in x) {\n    print \"v\", x\n    x = 0\n  }\n  print \"after\", x\n}" % la, vis + "after 0\n"))
    # objects and strings
    keys = rng.sample(["b", "a", "k", "Z", "é", "10"], rng.randint(1, 4))
    obj = {k: float(i + 1) for i, k in enumerate(keys)}
    sk = sorted(keys, key=lambda z: z.encode())
    out.append(("BEGIN {\n  k = %s\n  for (k in k) {\n    print \"v\", k\n  }\n  print \"after\", k\n}" % lit(obj),
                "".join("v %s\n" % k for k in sk) + "after %s\n" % sk[-1]))
    out.append(("BEGIN {\n  w = %s\n  for (k, w in w) {\n    print \"v\", k, w\n  }\n  print \"after\", k, w\n}" % lit(obj),
                "".join("v %s %s\n" % (k, P(obj[k])) for k in sk) + "after %s %s\n" % (sk[-1], P(obj[sk[-1]]))))
    s = rng.choice(["a", "héy", "€x", "abc", "日本"])
    offs, off = [], 0
    for ch in s:
        offs.append((ch, off))
        off += len(ch.encode())
    out.append(("BEGIN {\n  c = \"%s\"\n  for (c in c) {\n    print \"v\", c\n  }\n  print \"after\", c\n}" % s,
                "".join("v %s\n" % ch for ch, _ in offs) + "after %s\n" % offs[-1][0]))
    out.append(("BEGIN {\n  i = \"%s\"\n  for (c, i in i) {\n    print \"v\", c, i\n  }\n  print \"after\", c, i\n}" % s,
                "".join("v %s %d\n" % (ch, o) for ch, o in offs) + "after %s %d\n" % offs[-1]))
    return out


# work-queue shapes written the way a user would
def queues(rng):
    n = rng.randint(2, 6)
    jobs = [float(i + 1) for i in range(n)]
    lj = lit(jobs)
    P = pyref.pretty
    out = []
    out.append(("BEGIN {\n  queue = %s\n  for (job in queue) {\n    print \"job\", job\n    queue.popfirst()\n  }\n  print queue.length()\n}" % lj,
                "".join("job %s\n" % P(j) for j in jobs) + "0\n"))
    out.append(("BEGIN {\n  queue = %s\n  for (job in queue) {\n    print \"job\", job\n    queue.pop()\n  }\n  print queue.length()\n}" % lj,
                "".join("job %s\n" % P(j) for j in jobs) + "0\n"))
    k = rng.randint(1, n)
    out.append(("BEGIN {\n  work = %s\n  for (x, i in work) {\n    print i, x\n    if (x < %d) {\n      work.push(x + 10)\n    }\n  }\n  print work.length()\n}" % (lj, k + 1),
                "".join("%d %s\n" % (i, P(j)) for i, j in enumerate(jobs)) + "%d\n" % (n + k)))
    out.append(("BEGIN {\n  seen = %s\n  for (s in seen) {\n    print s\n    seen = []\n  }\n  print seen.length()\n}" % lj,
                "".join("%s\n" % P(j) for j in jobs) + "0\n"))
    out.append(("{\n  for (it in $.items) {\n    print it\n    $.items.push(it * 2)\n  }\n  print $.items.length()\n}",
                "".join("%s\n" % P(j) for j in jobs) + "%d\n" % (2 * n), '{"items": %s}' % P(jobs)))
    return out
