"""The check driver: obligations (theorems) + correspondence (model vs implementation) +
property oracle (on the implementation alone) -> verdict, replay files, evidence."""
import os, sys, json, time, hashlib, random, glob, traceback
from jqlib import *
import build as B

# evidence/ describes runs against /repo itself; a run against a scratch copy (VERIF_REPO, used by
# py/mutants.py and py/neutrals.py) writes its evidence under .build/ instead
EVID = (os.path.join(VERIF, "evidence") if os.environ.get("VERIF_REPO", "/repo") == "/repo"
        else os.path.join(VERIF, ".build", "evidence-scratch"))
REPLAYS = os.path.join(VERIF, "replays")
CORPUS = os.path.join(VERIF, "corpus")

TRUSTED_BASE = [
    "Coq 8.16.1 kernel (coqc); vm_compute for closed side conditions and examples; no native_compute",
    "axioms: none declared in this development; Print Assumptions of every property theorem is recorded per obligation",
    "translator /verif/gen (Go, go/ast): transcribes enumerations, lexer keyword/operator switches, the Pratt rule table, limits, tag sets, prototype names into Gen/Generated.v",
    "extraction: Require Extraction + ExtrOcamlBasic only (bool, option, unit, list, prod); no Extract Constant/Inductive of our own; nat/N/Z/positive/spec_float stay inductive; ocamlfind ocamlopt 4.13.1; driver /verif/ocaml/main.ml (I/O, hex, printing)",
    "correspondence check (testing strength): Go harness /verif/harness (jqh) on /repo's working tree vs extracted model on generated cases; generators and differ in /verif/py",
    "modelled, not verified: Go semantics (slices incl. append growth on go1.23 amd64, maps, int conversion), strconv, encoding/json, regexp (fragment), strings, slices.SortStableFunc, unicode, flag, os",
]


# the theorem files of each property (Props/<file>, or a path relative to coq/theories)
PROPS = {
    "C01": ["C01_nopanic.v", "C01_signals.v", "C01_parse_wf.v"],
    "C02": ["C02_schedule.v", "C02_selectors_fresh.v"],
    "C03": ["C03_stream.v", "C02_schedule.v"],
    "C04": ["C04_json.v", "C04_roundtrip.v", "C04_closed.v"],
    "C05": ["C05_operators.v", "C05_late_read.v"],
    "C06": ["C06_syntax.v", "C06_evaluates_identically.v"],
    "C07": ["C07_control.v", "C10_objects_sorted.v"],
    "C08": ["C08_frames.v"],
    "C09": ["C09_reads.v", "C09_stores.v", "C09_creates.v", "C09_incdec.v"],
    "C10": ["C10_determinism.v", "C10_objects_sorted.v"],
    "C11": ["C11_faults.v"],
    "C12": ["C12_positions.v", "C12_token_in_node.v"],
    "C13": ["C13_lexer.v", "C13_statements.v", "C06_evaluates_identically.v"],
    "C14": ["C14_cli.v"],
    "C15": ["C15_arrays.v"],
    "C16": ["C16_methods.v", "C16_numbers.v", "C16_strings.v"],
    "C17": ["C17_print.v", "C17_render_json.v", "C16_numbers.v"],
    "C18": ["C18_printf.v"],
    "C19": ["C19_match.v"],
    "C20": ["C20_depth.v", "C20_fill.v", "C20_width.v"],
}

# generated tables (Gen/Generated.v) -> the properties whose statements are about what the table encodes.
# When the translator cannot extract a table from the current source it emits the reference table of the
# pinned tree and records the table as missing: the tie "by table" is then lost for these properties (a
# broken obligation), while every property keeps its correspondence runs against the reference model.
TABLE_PROPS = {
    "token_tags": ["C06", "C13"], "precedences": ["C06"], "rule_table": ["C06", "C13"], "compound_table": ["C06", "C09"],
    "keyword_table": ["C13"], "op1_table": ["C13", "C12"], "op2_table": ["C13", "C12"], "quote_chars": ["C13", "C12"],
    "ws_chars": ["C13"], "comment_chars": ["C13"], "escape_table": ["C13"],
    "rule_kind_names": ["C02"], "value_tag_names": ["C05"], "truthy_cases": ["C05"], "is_type_names": ["C05"],
    "copy_cases": ["C09"], "array_proto_names": ["C15"], "obj_proto_names": ["C16"], "str_proto_names": ["C16"],
    "num_proto_names": ["C16"], "runtime_names": ["C16"], "native_arities": ["C15", "C16"],
    "printf_directives": ["C18"], "printf_width_limit": ["C18", "C20"], "call_depth_limit": ["C20", "C08"],
    "fuzzing_loop_limit": ["C07", "C01"], "fill_limit": ["C20", "C09"],
}


class Case:
    def __init__(self, cid, line, meta=None, nontrivial=True, tags=()):
        self.id = cid
        self.line = line            # the case line for jqh / jqmodel (may be None for oracle-only cases)
        self.meta = meta or {}
        self.nontrivial = nontrivial
        self.tags = set(tags)

    def key(self):
        return hashlib.sha256((self.line or json.dumps(self.meta, sort_keys=True)).split(" ", 2)[-1].encode()).hexdigest()[:16]


class Check:
    pid = "C00"
    props = []                  # Props/*.v files whose theorems are this property's obligations
    rule = ""
    position = False            # compare error positions model vs impl
    io = False                  # compare the read/write interleaving log
    compare_model = True

    def generate(self, rng, tier):
        return []

    def oracle(self, case, impl):
        """Property-level verdict on the implementation alone. Return None if the property
        holds on this case, else a short description of the violation."""
        return None

    def project(self, r):
        return r.proj(self.position, self.io)

    def known_finding(self, case, why):
        """Return the id of an OPEN known finding this failing case is an instance of, else None."""
        return None

    def extra(self, ctx):
        """Checks that are not model/impl case pairs (CLI binary, repeated runs ...).
        Returns (violations [(case, why)], stats dict)."""
        return [], {}


def load_corpus(pid):
    out = []
    for path in sorted(glob.glob(os.path.join(CORPUS, pid, "*.json"))):
        try:
            d = json.load(open(path))
        except Exception:
            continue
        cid = "k" + "".join(ch for ch in os.path.basename(path)[:-5] if ch.isalnum())
        line = d["line"]
        if line.split(" ")[1] == "ID":
            parts = line.split(" ")
            parts[1] = cid
            line = " ".join(parts)
        out.append(Case(cid, line, d.get("meta", {}), True, d.get("tags", ())))
    return out


def write_replay(pid, case, info):
    d = os.path.join(REPLAYS, pid)
    os.makedirs(d, exist_ok=True)
    key = case.key() if case is not None else hashlib.sha256(json.dumps(info, sort_keys=True).encode()).hexdigest()[:16]
    path = os.path.join(d, key + ".json")
    body = {"property": pid}
    if case is not None:
        body.update({"case_line": case.line, "meta": case.meta, "tags": sorted(case.tags)})
    body.update(info)
    with open(path, "w") as f:
        json.dump(body, f, indent=1, default=str)
    return os.path.relpath(path, VERIF)


def run_check(chk, tier, replay=None):
    t0 = time.time()
    seed = seed_int()
    rng = random.Random(seed * 1000003 + sum(ord(c) for c in chk.pid))
    violations = 0
    lines_out = []

    try:
        binfo = B.build_all()
    except B.BuildError as e:
        print("infrastructure failure: %s\n%s" % (e.stage, e.log[-2000:]))
        return 2

    # ---- obligations
    chk.props = PROPS.get(chk.pid, chk.props)
    obl = B.props_status(chk.props) if chk.props else []
    broken = [o for o in obl if not o["ok"]]
    chk_summary = None
    if tier == "thorough" and chk.props and binfo["coq_ok"]:
        okc, chk_summary = B.coqchk_props(chk.props)
        if not okc:
            broken.append({"file": ",".join(chk.props), "theorem": "(coqchk)", "assumptions": chk_summary, "ok": False})
    if not binfo.get("harness_ok", True):
        broken.append({"file": "harness/", "theorem": "(the Go harness no longer compiles against this tree: the exported API or AST changed; "
                       "model and implementation cannot be compared) " + binfo.get("harness_log", "").strip().splitlines()[-1][:200],
                       "assumptions": "", "ok": False})
    not_extracted = []
    for m in binfo.get("gen_missing", []):
        for t in m.get("tables", []):
            not_extracted.append(t)
            if chk.pid in TABLE_PROPS.get(t, []):
                broken.append({"file": "Gen/Generated.v", "theorem": "(table %s could not be extracted from the current source: %s; the reference table "
                               "of the pinned tree was used, so this property is no longer tied to the source through it)" % (t, m.get("reason")),
                               "assumptions": "", "ok": False})
    for g in binfo.get("gencheck_failed", []):
        hit = not g["tables"] or any(chk.pid in TABLE_PROPS.get(t, []) for t in g["tables"])
        if hit:
            broken.append({"file": "Gen/GenCheck.v", "theorem": "%s (side condition tying the generated table%s %s to the model no longer holds: %s)"
                           % (g["lemma"], "s" if len(g["tables"]) != 1 else "", ", ".join(g["tables"]) or "?", g["error"]), "assumptions": "", "ok": False})
    if not binfo["coq_ok"]:
        # a file that no longer compiles breaks the obligations of the properties whose theorem files
        # depend on it (everything, for a file of the model itself); the model binary is then stale,
        # which the correspondence runs below would show as disagreements if it mattered
        closure = B.dep_closure(chk.props) if chk.props else None
        for f in binfo["broken_files"]:
            if closure is None or f in closure or not f.endswith(".v") or f.startswith(("Extract/", "Gen/")):
                broken.append({"file": f, "theorem": "(does not compile)", "assumptions": "", "ok": False})

    # ---- cases
    cases = load_corpus(chk.pid) + chk.generate(rng, tier)
    seen, uniq = set(), []
    for c in cases:
        k = c.key()
        if k in seen:
            continue
        seen.add(k)
        uniq.append(c)
    cases = uniq
    runnable = [c for c in cases if c.line]
    impl, model = {}, {}
    if runnable:
        if chk.compare_model and binfo.get("model_ok"):
            impl, model = run_both([c.line for c in runnable])
        else:
            impl = run_impl([c.line for c in runnable])

    # a case that timed out (machine under load) is re-run alone before anything is concluded
    slow = [c for c in runnable if RunRes(impl.get(c.id, [])).outcome in ("timeout", "noresult")]
    if slow and len(slow) <= 50:
        again = run_impl([c.line for c in slow], jobs=1)
        for c in slow:
            if again.get(c.id):
                impl[c.id] = again[c.id]

    failing = []        # (case, why, impl, model)
    disagreements = []
    inconclusive = 0
    unsupported = 0
    for c in runnable:
        a = RunRes(impl.get(c.id, []))
        why = None
        if a.outcome in ("timeout", "noresult") and not getattr(chk, "timeout_is_violation", False):
            inconclusive += 1
            continue
        try:
            if "corpus" in c.tags and "expect_outcome" in c.meta:
                # corpus witnesses carry the documented result themselves
                if a.outcome != c.meta["expect_outcome"] or a.stdout != c.meta["expect_stdout"].encode():
                    why = "witness %s: documented (%r, %r), implementation (%r, %r)" % (
                        c.meta.get("witness_of"), c.meta["expect_outcome"], c.meta["expect_stdout"][:80], a.outcome, a.stdout[:80])
            else:
                why = chk.oracle(c, a)
        except Exception as e:
            why = None
            lines_out.append("oracle exception on %s: %r" % (c.id, e))
        if why:
            failing.append((c, why, a, RunRes(model.get(c.id, [])) if model else None))
            continue
        if model:
            b = RunRes(model.get(c.id, []))
            if b.outcome == "unsupported":
                unsupported += 1
                continue
            if b.inconclusive or a.outcome in ("timeout", "noresult", "badcase"):
                inconclusive += 1
                continue
            if chk.project(a) != chk.project(b):
                disagreements.append((c, a, b))

    extra_viol, extra_stats = [], {}
    try:
        extra_viol, extra_stats = chk.extra({"rng": rng, "tier": tier, "cases": cases, "impl": impl})
    except Exception as e:
        lines_out.append("extra() exception: %s" % traceback.format_exc())
    for c, why in extra_viol:
        failing.append((c, why, None, None))

    # ---- verdict
    known_lines = []
    reported = False
    for c, why, a, b in failing:
        kf = chk.known_finding(c, why)
        if kf:
            known_lines.append("KNOWN-FINDING: property=%s %s (%s)" % (chk.pid, kf, why))
            continue
        if not reported:
            path = write_replay(chk.pid, c, {"kind": "property violated on the implementation", "why": why,
                                             "impl": describe(a) if a else None, "model": describe(b) if b else None})
            print("VIOLATION property=%s replay=%s" % (chk.pid, path))
            reported = True
        violations += 1
    if not reported and disagreements:
        c, a, b = disagreements[0]
        path = write_replay(chk.pid, c, {"kind": "correspondence broken: model (proved to satisfy the property) and implementation differ on this input",
                                         "impl": describe(a), "model": describe(b),
                                         "note": "the model's behaviour on this input is what the theorems of Props/%s* describe; the implementation's differs" % chk.pid})
        # a disagreement on an observable of the property is a failing input of the property itself
        print("VIOLATION property=%s replay=%s" % (chk.pid, path))
        reported = True
        violations += len(disagreements)
    if not reported and broken:
        path = write_replay(chk.pid, None, {"kind": "proof obligation no longer checks",
                                            "broken": broken, "coq_log_tail": binfo["coq_log"][-1500:]})
        print("VIOLATION property=%s replay=%s no-failing-input-found" % (chk.pid, path))
        reported = True
        violations += 1
    for l in sorted(set(known_lines)):
        print(l)
    for l in lines_out:
        print(l)

    # ---- evidence
    nontriv = len({c.key() for c in cases if c.nontrivial})
    samples = [dict(c.meta, id=c.id) for c in cases[:3]] + [dict(c.meta, id=c.id) for c in cases[-2:]]
    ev = {
        "property_id": chk.pid, "tier": tier, "seed": seed, "level": "proof",
        "coverage": {
            "obligations": max(1, len(obl)), "discharged": len([o for o in obl if o["ok"]]),
            "checker_cmd": "make -C coq (coq_makefile, full .vo build) ; coqc -R coq/theories JQ coq/theories/Props/<file>.v for: " + ", ".join(chk.props),
            "trusted_base": TRUSTED_BASE + ["Print Assumptions: " + "; ".join("%s: %s" % (o["theorem"], o["assumptions"].splitlines()[0] if o["assumptions"] else "?") for o in obl)],
            "theorems": [{"file": o["file"], "name": o["theorem"], "ok": o["ok"]} for o in obl],
            "evaluations": len(cases), "distinct_nontrivial": nontriv, "rule": chk.rule,
            "samples": samples,
            "correspondence": {"compared": len(runnable) - inconclusive - unsupported, "disagreements": len(disagreements),
                               "inconclusive": inconclusive, "unsupported_by_model_oracles": unsupported,
                               "oracle_violations": len(failing)},
            "generated_v_changed": binfo["generated_changed"], "build_s": binfo.get("build_s"),
            "tables_not_extracted": not_extracted,
            "coqchk": chk_summary,
        },
        "assumptions": ["fuel: every theorem about the evaluator excludes the OutOfFuel outcome explicitly",
                        "library oracles (regexp fragment, encoding/json, strconv, strings, sort, slice growth) are validated against Go by differential tests, not proved equal to Go"],
        "wall_s": round(time.time() - t0, 1), "violations": violations,
    }
    ev["coverage"].update(extra_stats)
    os.makedirs(EVID, exist_ok=True)
    with open(os.path.join(EVID, chk.pid + ".json"), "w") as f:
        json.dump(ev, f, indent=1, default=str)
    print("%s %s: %d cases (%d non-trivial), %d obligations (%d discharged), %d disagreements, %d oracle failures, %d known, %.0fs"
          % (chk.pid, tier, len(cases), nontriv, len(obl), len([o for o in obl if o["ok"]]), len(disagreements),
             len(failing), len(known_lines), time.time() - t0))
    if reported:
        return 1
    if any(l.startswith(("oracle exception", "extra() exception")) for l in lines_out):
        # part of the check did not run: that is not a verdict in either direction
        print("infrastructure failure: an oracle of this check raised an exception (printed above); the run is not a verdict")
        return 2
    return 0


def replay(chk, path):
    """Re-run one stored case on implementation and model and print both results."""
    d = json.load(open(path if os.path.isabs(path) else os.path.join(VERIF, path)))
    try:
        B.build_all()
    except B.BuildError as e:
        print("infrastructure failure:", e.stage)
        return 2
    line = d.get("case_line")
    if not line:
        print(json.dumps(d, indent=1))
        return 1
    impl, model = run_both([line])
    cid = line.split(" ")[1]
    a, b = RunRes(impl.get(cid, [])), RunRes(model.get(cid, []))
    print("case:", json.dumps(d.get("meta"), indent=1))
    print("implementation:", json.dumps(describe(a), indent=1))
    print("model         :", json.dumps(describe(b), indent=1))
    c = Case(cid, line, d.get("meta"), True, d.get("tags", ()))
    why = chk.oracle(c, a)
    print("property oracle on the implementation:", why or "holds")
    if why or chk.project(a) != chk.project(b):
        print("VIOLATION property=%s replay=%s" % (chk.pid, path))
        return 1
    return 0
