import sys, random, json
from jqlib import *
import genprog
seed = int(sys.argv[1]) if len(sys.argv) > 1 else 1
N = int(sys.argv[2]) if len(sys.argv) > 2 else 500
rng = random.Random(seed)
lines, meta = [], {}
for k in range(N):
    prog = genprog.rand_program(rng)
    inputs = [genprog.rand_input(rng) for _ in range(rng.choice([0, 1, 1, 1, 2]))]
    sels = [rng.choice(["$", "$.k", "$.list", "$[0]", "$.name.z"])] if rng.random() < 0.1 else []
    cid = "z%d" % k
    lines.append(simple_run(cid, prog, inputs, sels, fuzz=True))
    meta[cid] = (prog, inputs, sels)
import time; t0 = time.time()
impl, model = run_both(lines)
dis, inc, agree = compare_runs(impl, model, list(meta), position=True, io=True)
print("agree", agree, "disagree", len(dis), "inconclusive", len(inc), "time %.1f" % (time.time() - t0))
from collections import Counter
print(Counter(RunRes(impl[i]).outcome for i in meta), Counter(RunRes(model.get(i, [])).outcome for i in meta))
for i, a, b in dis[:int(sys.argv[3]) if len(sys.argv) > 3 else 5]:
    print("----", i)
    print(meta[i][0]); print("inputs", meta[i][1], meta[i][2])
    da, db = describe(a), describe(b)
    for k in da:
        if da[k] != db[k]:
            print("  DIFF %s:\n    impl : %r\n    model: %r" % (k, da[k], db[k]))
