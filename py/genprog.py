"""Random jqawk programs and JSON inputs: a grammar-directed generator whose programs are
mostly valid and terminate quickly (bounded loops), with side effects in operand positions,
methods, match, functions, member stores, and all statement kinds."""
import random, json

VARS = ["a", "b", "c", "x", "y", "n", "s", "o", "arr", "u"]
FUNCS = ["f", "g", "h"]
KEYS = ["k", "name", "v", "id", "list", "z"]
STRS = ["", "a", "abc", "10", "9", "1e3", " 1", "x,y,z", "Hello", "0", "-5", "héllo", "a.b", "3.5", "true"]
NUMS = ["0", "1", "2", "3", "7", "10", "0.5", "2.5", "100", "42", "3.25", "1000000", "9007199254740993"]
BINOPS = ["+", "-", "*", "/", "%", "==", "!=", "<", "<=", ">", ">=", "&&", "||", "~", "!~"]
ARR_METHODS = ["length", "push", "pop", "popfirst", "contains", "sort"]
STR_METHODS = ["length", "split", "lower", "upper"]
NUM_METHODS = ["floor", "ceil", "round"]
OBJ_METHODS = ["length", "pluck"]
TYPES = ["string", "bool", "number", "array", "object", "regex", "unknown", "function", "null", "foo"]
REGEXES = ["a", "^a", "b$", "[0-9]+", "^[a-z]+$", "a|b", "x*y", "l+o", ".", "(ab)+", "\\d", "h.llo", "^$"]


class G:
    def __init__(self, rng, funcs=0, in_func=False, in_loop=False, rule_ctx=True, max_depth=3):
        self.r = rng
        self.funcs = funcs
        self.in_func = in_func
        self.in_loop = in_loop
        self.rule_ctx = rule_ctx
        self.max_depth = max_depth

    def ch(self, l):
        return self.r.choice(l)

    # ------------------------------------------------ expressions
    def string_lit(self, s=None):
        s = self.ch(STRS) if s is None else s
        q = self.ch(["'", '"'])
        if q in s:
            q = "'" if q == '"' else '"'
        return q + s + q

    def atom(self):
        k = self.r.random()
        if k < 0.22:
            return self.ch(NUMS)
        if k < 0.36:
            return self.string_lit()
        if k < 0.62:
            return self.ch(VARS)
        if k < 0.68:
            return self.ch(["true", "false", "null"])
        if k < 0.78 and self.rule_ctx:
            return self.ch(["$", "$." + self.ch(KEYS), "$[" + self.ch(["0", "1", "-1", "5"]) + "]", "$index", "$file"])
        if k < 0.84:
            return "[" + ", ".join(self.expr(2) for _ in range(self.r.randint(0, 3))) + "]"
        if k < 0.89:
            return "({" + ", ".join("%s: %s" % (self.ch(KEYS), self.expr(2)) for _ in range(self.r.randint(0, 3))) + "})"
        if k < 0.93:
            return "/" + self.ch(REGEXES) + "/"
        return "(" + self.expr(1) + ")"

    def lvalue(self, depth=0):
        base = self.ch(VARS + (["$"] if self.rule_ctx else []))
        for _ in range(self.r.choice([0, 0, 1, 1, 2])):
            if self.r.random() < 0.5:
                base += "." + self.ch(KEYS)
            else:
                base += "[" + self.ch(["0", "1", "2", "-1", "3", "n", "'k'", "1.7"]) + "]"
        return base

    def expr(self, depth=None):
        d = self.max_depth if depth is None else depth
        if d <= 0:
            return self.atom()
        k = self.r.random()
        if k < 0.25:
            return self.atom()
        if k < 0.50:
            op = self.ch(BINOPS)
            if op in ("~", "!~"):
                rhs = self.ch(["/" + self.ch(REGEXES) + "/", self.string_lit(self.ch(REGEXES)), self.ch(VARS)])
                return "%s %s %s" % (self.expr(d - 1), op, rhs)
            if op in ("/", "%") and self.r.random() < 0.8:
                return "%s %s %s" % (self.paren(self.expr(d - 1)), op, self.ch(["2", "3", "7", "0.5", "10"]))
            return "%s %s %s" % (self.paren(self.expr(d - 1)), op, self.paren(self.expr(d - 1)))
        if k < 0.56:
            return self.ch(["!", "-", "+"]) + self.paren(self.expr(d - 1))
        if k < 0.62:
            return "(" + (self.ch(["++", "--"]) + self.lvalue() if self.r.random() < 0.5 else self.lvalue() + self.ch(["++", "--"])) + ")"
        if k < 0.70:
            return "(%s %s %s)" % (self.lvalue(), self.ch(["=", "=", "+=", "-=", "*=", "/="]), self.expr(d - 1))
        if k < 0.80:
            return self.method_call(d)
        if k < 0.84 and self.funcs:
            f = self.ch(FUNCS[:self.funcs])
            return "%s(%s)" % (f, ", ".join(self.expr(d - 1) for _ in range(self.r.randint(0, 3))))
        if k < 0.87:
            return "%s is %s" % (self.paren(self.expr(d - 1)), self.ch(TYPES))
        if k < 0.90:
            return self.ch(["num", "json"]) + "(" + self.expr(d - 1) + ")"
        if k < 0.94:
            return self.match_expr(d)
        return self.lvalue()

    def paren(self, e):
        if any(c in e for c in " ") and not (e.startswith("(") and e.endswith(")")):
            return "(" + e + ")" if self.r.random() < 0.7 else e
        return e

    def method_call(self, d):
        # mostly a receiver of the kind the method belongs to (see the BEGIN preamble of program())
        kind = self.ch(["arr", "arr", "str", "num", "obj"])
        if self.r.random() < 0.15:
            recv = self.ch([self.ch(VARS), self.lvalue(), "u", "null", "true"])
            m = self.ch(ARR_METHODS + STR_METHODS + NUM_METHODS + OBJ_METHODS)
        elif kind == "arr":
            recv = self.ch(["arr", "arr", "[" + ", ".join(self.ch(NUMS + ["'b'", "'a'"]) for _ in range(self.r.randint(0, 4))) + "]"]
                           + (["$"] if self.rule_ctx else []))
            m = self.ch(ARR_METHODS)
        elif kind == "str":
            recv = self.ch(["s", "s", self.string_lit()])
            m = self.ch(STR_METHODS)
        elif kind == "num":
            recv = self.ch(["n", "x", "(" + self.ch(NUMS) + ")", "(x / 3)"])
            m = self.ch(NUM_METHODS)
        else:
            recv = self.ch(["o", "o", "({k: 1, v: 2})"])
            m = self.ch(OBJ_METHODS)
        if m in ("push", "contains"):
            args = self.expr(d - 1)
        elif m == "split":
            args = self.ch(["','", "''", "'a'", "'.'", "' '"])
        elif m == "pluck":
            args = ", ".join(self.ch(["'k'", "'v'", "'zz'", "'id'"]) for _ in range(self.r.randint(0, 3)))
        else:
            args = "" if self.r.random() < 0.9 else self.expr(1)
        return "%s.%s(%s)" % (recv, m, args)

    def pattern(self, d):
        k = self.r.random()
        if k < 0.4:
            return self.ch(NUMS[:6] + ["'a'", "'abc'", "true", "null"])
        if k < 0.6:
            return self.ch(["p", "q", "_"])
        if d > 0:
            return "[" + ", ".join(self.pattern(d - 1) for _ in range(self.r.randint(0, 3))) + "]"
        return "_"

    def match_expr(self, d):
        cases = []
        for _ in range(self.r.randint(1, 3)):
            pats = ", ".join(self.pattern(2) for _ in range(self.r.randint(1, 2)))
            if self.r.random() < 0.6:
                body = self.expr(d - 1)
            else:
                body = "{ " + self.term(self.stmt(d - 1)) + " }"
            cases.append("%s => %s" % (pats, body))
        sep = ", "   # a newline before a "[" pattern would continue the previous body as an index expression
        return "match (%s) { %s }" % (self.expr(d - 1), sep.join(cases))

    # ------------------------------------------------ statements
    def stmt(self, d):
        k = self.r.random()
        if d <= 0 or k < 0.30:
            return ("print " + ", ".join(self.expr(2) for _ in range(self.r.randint(1, 3)))) if self.r.random() < 0.9 else "print"
        if k < 0.50:
            return self.expr(2)
        if k < 0.60:
            s = "if (%s) %s" % (self.expr(2), self.body(d - 1))
            if self.r.random() < 0.5:
                s += " else " + self.body(d - 1)
            return s
        if k < 0.67:
            v = self.ch(["i", "j"])
            g = G(self.r, self.funcs, self.in_func, True, self.rule_ctx, self.max_depth)
            return "for (%s = 0; %s < %d; %s++) %s" % (v, v, self.r.randint(0, 4), v, g.body(d - 1))
        if k < 0.75:
            g = G(self.r, self.funcs, self.in_func, True, self.rule_ctx, self.max_depth)
            vs = self.ch(["e", "e, ix"])
            it = self.ch([self.ch(VARS), "[1, 2, 3]", "'héy'", "{k: 1, v: [2]}", self.expr(1)] + (["$"] if self.rule_ctx else []))
            return "for (%s in %s) %s" % (vs, it, g.body(d - 1))
        if k < 0.80:
            g = G(self.r, self.funcs, self.in_func, True, self.rule_ctx, self.max_depth)
            v = self.ch(["w", "n"])
            return "{ %s = 0;\n while (%s < %d) { %s++; %s } }" % (v, v, self.r.randint(0, 4), v, g.term(g.stmt(d - 1)))
        if k < 0.84:
            return "printf(%s%s)" % (self.string_lit(self.ch(["%s|", "%f ", "%v\\n", "%5s|", "%-6v|", "%05f", "x%%y", "%d", "%3", "%"])),
                                     "".join(", " + self.expr(1) for _ in range(self.r.randint(0, 2))))
        if k < 0.88 and self.in_loop:
            return self.ch(["break", "continue"])
        if k < 0.91 and self.in_func:
            return "return " + self.expr(2) if self.r.random() < 0.8 else "return"
        if k < 0.94:
            return self.ch(["next", "exit"]) if self.r.random() < 0.5 else "print 'z'"
        return "{ " + self.stmts(d - 1, 2) + " }"

    def body(self, d):
        return "{ " + self.stmts(d, 2) + " }"

    @staticmethod
    def term(st):
        """terminate a statement with ';' unless it ends in '}' (a ';' after '}' is a syntax error)"""
        st = st.rstrip()
        if st.endswith("}") or st.endswith(";"):
            return st
        return st + ";"

    def stmts(self, d, n):
        out = []
        for _ in range(self.r.randint(1, n)):
            out.append(self.term(self.stmt(d)))
        return "\n ".join(out)

    # ------------------------------------------------ programs
    def program(self):
        parts = []
        nf = self.r.choice([0, 0, 1, 2])
        self.funcs = nf
        for i in range(nf):
            g = G(self.r, nf, True, False, True, self.max_depth)
            params = ", ".join(self.ch(VARS[:5]) for _ in range(self.r.randint(0, 3)))
            parts.append("function %s(%s) { %s }" % (FUNCS[i], params, g.stmts(2, 3)))
        nr = self.r.randint(1, 4)
        for _ in range(nr):
            kind = self.ch(["BEGIN", "END", "pat", "pat", "bare", "BEGINFILE", "ENDFILE", "nobody"])
            g = G(self.r, nf, False, False, True, self.max_depth)
            body = "{ " + g.stmts(2, 3) + " }"
            if kind in ("BEGIN", "END", "BEGINFILE", "ENDFILE"):
                parts.append(kind + " " + body)
            elif kind == "pat":
                parts.append(g.expr(2) + " " + body)
            elif kind == "nobody":
                parts.append(g.expr(2))
            else:
                parts.append(body)
        self.r.shuffle(parts)
        if self.r.random() < 0.8:
            parts.insert(0, "BEGIN { n = 3; x = 2.5; y = 10; s = 'a,b,c'; arr = [3, 1, 2]; o = ({k: 1, v: [2]}); a = 1; b = 'q'; c = [1] }")
        return "\n".join(parts)


def rand_json(rng, depth=3):
    k = rng.random()
    if depth <= 0 or k < 0.35:
        return rng.choice([0, 1, -3, 2.5, 10, 1e21, 0.000001, "a", "abc", "10", "", "x,y", True, False, None, "héllo", 123456789012])
    if k < 0.7:
        return [rand_json(rng, depth - 1) for _ in range(rng.randint(0, 4))]
    return {rng.choice(KEYS): rand_json(rng, depth - 1) for _ in range(rng.randint(0, 4))}


def rand_input(rng):
    n = rng.choice([1, 1, 1, 2, 3])
    vals = []
    for _ in range(n):
        v = rand_json(rng, 3) if rng.random() < 0.4 else [rand_json(rng, 2) for _ in range(rng.randint(0, 4))]
        vals.append(json.dumps(v, ensure_ascii=rng.random() < 0.5))
    return rng.choice([" ", "\n", "\n\n", ""]).join(vals) if all(v[0] in "[{" and v[-1] in "]}" for v in vals) else "\n".join(vals)


def rand_program(rng, max_depth=3):
    return G(rng, max_depth=max_depth).program()
