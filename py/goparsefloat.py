"""The string syntax strconv.ParseFloat(s, 64) accepts, written from the Go documentation (decimal and hexadecimal
floating-point literals, optional sign, '_' only between digits or after a base prefix, the words inf / infinity / nan),
with correctly rounded values from Python's own conversions.  Used by C16 as the independent meaning of "numeric string".
parse(s) -> float, or None for a syntax or range error (num() answers null for both)."""
import math, re

_DEC = re.compile(r"[+-]?(?:[0-9_]+\.?[0-9_]*|\.[0-9_]+)(?:[eE][+-]?[0-9][0-9_]*)?\Z")
_HEX = re.compile(r"[+-]?0[xX](?:[0-9a-fA-F_]+\.?[0-9a-fA-F_]*|\.[0-9a-fA-F_]+)[pP][+-]?[0-9][0-9_]*\Z")


def _underscores_ok(s):
    """'_' must separate digits; the base prefix counts as a digit"""
    if s[:1] in ("+", "-"):
        s = s[1:]
    saw, i, hexd = "^", 0, False
    if len(s) >= 2 and s[0] == "0" and s[1] in "bBoOxX":
        i, saw, hexd = 2, "0", s[1] in "xX"
    for c in s[i:]:
        if c in "0123456789" or (hexd and c in "abcdefABCDEF"):
            saw = "0"
        elif c == "_":
            if saw != "0":
                return False
            saw = "_"
        else:
            if saw == "_":
                return False
            saw = "!"
    return saw != "_"


def parse(s):
    if not isinstance(s, str) or not s.isascii():
        return None
    low = s.lower()
    body = low[1:] if low[:1] in ("+", "-") else low
    if body in ("inf", "infinity"):
        return -math.inf if low[0] == "-" else math.inf
    if low == "nan":
        return math.nan
    ishex = bool(_HEX.match(s))
    if not ishex and not _DEC.match(s):
        return None
    mant = re.split(r"[pP]" if ishex else r"[eE]", s)[0]
    digits = mant[mant.lower().index("x") + 1:] if ishex else mant
    if not re.search(r"[0-9a-fA-F]" if ishex else r"[0-9]", digits):
        return None                 # "._", "0x_p1": no digit at all
    if "_" in s and not _underscores_ok(s):
        return None
    t = s.replace("_", "")
    try:
        x = float.fromhex(t) if ishex else float(t)
    except (ValueError, OverflowError):
        return None
    if math.isinf(x):
        return None                 # out of range
    return x
