"""A Python statement of jqawk's documented lexical rules (independent of the implementation and of the
Coq model), used by C13: whitespace and comments, newline tokens, $-names, keywords as whole words,
numbers = digits with an optional fraction, strings/regexes up to the closing delimiter, operators by
longest match.  Works on bytes; a byte >= 0x80 counts as the Latin-1 character of that value, which is
how the lexer classifies it (generated programs keep such bytes inside strings and comments)."""
import unicodedata

KEYWORDS = {"BEGIN": "BEGIN", "END": "END", "BEGINFILE": "BEGINFILE", "ENDFILE": "ENDFILE", "print": "print", "function": "function",
            "return": "return", "if": "if", "else": "else", "for": "for", "while": "while", "in": "in", "match": "match",
            "true": "true", "false": "false", "break": "break", "continue": "continue", "next": "next", "exit": "exit",
            "null": "null", "is": "is"}
SINGLE = set("{}[](),.;:~%")
# first character -> possible second characters forming a two-character operator
DOUBLE = {"<": "=", ">": "=", "+": "+=", "-": "-=", "*": "=", "/": "=", "=": "=>", "!": "=~", "&": "&", "|": "|"}
OPERATORS = ["{", "}", "[", "]", "(", ")", "<", ">", ",", ".", "=", "==", "!=", "<=", ">=", ":", ";", "+", "-", "*", "/", "+=", "-=",
             "*=", "/=", "~", "!~", "&&", "||", "=>", "!", "++", "--", "%"]
PROBE = " ".join(["ab", '"s"', "1", "$"] + sorted(KEYWORDS) + OPERATORS)     # one token of every kind, for tag discovery


def is_letter(b):
    return unicodedata.category(chr(b)).startswith("L")


def is_digit(b):
    return unicodedata.category(chr(b)) == "Nd"


def is_idchar(b):
    return b == 0x5F or is_letter(b) or is_digit(b)


class Tok:
    __slots__ = ("kind", "pos", "len", "start", "end")

    def __init__(self, kind, pos, length, start, end):
        self.kind, self.pos, self.len, self.start, self.end = kind, pos, length, start, end

    def __repr__(self):
        return "%s@%d+%d" % (self.kind, self.pos, self.len)


EXPR_END = {"Ident", "$", "Str", "Num", "Regex", "true", "false", "null", ")", "]", "++", "--"}


def lex(src, regex_aware=False):
    """returns (tokens, error position or None). kinds: Ident Str Num Regex Newline EOF Error, keyword text, operator text, `$`.
    pos/len as the implementation's Token (strings: inside the quotes; keywords and operators: length 0);
    start/end: the byte span of the whole lexeme."""
    toks = []
    i, n = 0, len(src)
    prev = None             # last token that is not a newline
    while True:
        while i < n:
            c = src[i]
            if c in (0x20, 0x0D, 0x09):
                i += 1
            elif c == 0x23:
                while i < n and src[i] != 0x0A:
                    i += 1
            else:
                break
        if i >= n:
            toks.append(Tok("EOF", n, 0, n, n))
            return toks, None
        c = src[i]
        ch = chr(c)
        start = i
        if c == 0x0A:
            toks.append(Tok("Newline", i, 0, i, i + 1))
            i += 1
            continue
        if c == 0x24 or is_letter(c) or c == 0x5F:
            j = i + 1
            while j < n and is_idchar(src[j]):
                j += 1
            text = src[i:j]
            if text == b"$":
                t = Tok("$", i, 0, i, j)
            elif c != 0x24 and text.decode("latin-1") in KEYWORDS:
                t = Tok(KEYWORDS[text.decode("latin-1")], i, 0, i, j)
            else:
                t = Tok("Ident", i, j - i, i, j)
            i = j
        elif is_digit(c):
            j = i
            while j < n and is_digit(src[j]):
                j += 1
            if j + 1 < n and src[j] == 0x2E and is_digit(src[j + 1]):
                j += 1
                while j < n and is_digit(src[j]):
                    j += 1
            t = Tok("Num", i, j - i, i, j)
            i = j
        elif ch in "'\"":
            j = i + 1
            while j < n and src[j] != c:
                j += 1
            if j >= n:
                toks.append(Tok("Error", i, 0, i, n))
                return toks, i
            t = Tok("Str", i + 1, j - i - 1, i, j + 1)
            i = j + 1
        elif ch == "/" and regex_aware and not (i + 1 < n and src[i + 1] == 0x3D) and (prev is None or prev.kind not in EXPR_END):
            j = i + 1
            while j < n and src[j] != 0x2F:
                j += 1
            if j >= n:
                toks.append(Tok("Error", i, 0, i, n))
                return toks, i
            t = Tok("Regex", i + 1, j - i - 1, i, j + 1)
            i = j + 1
        elif ch in DOUBLE and i + 1 < n and chr(src[i + 1]) in DOUBLE[ch]:
            t = Tok(ch + chr(src[i + 1]), i, 0, i, i + 2)
            i += 2
        elif ch in SINGLE or (ch in DOUBLE and ch not in "&|"):
            t = Tok(ch, i, 0, i, i + 1)
            i += 1
        else:
            toks.append(Tok("Error", i, 0, i, i + 1))
            return toks, i
        toks.append(t)
        prev = t


def glues(a, b):
    """would the texts of two tokens, written without a separator, lex differently from the two tokens?  (documented rules:
    names/keywords/numbers are maximal runs, `$` starts a name, a number takes one fraction, operators are longest-match)"""
    la, fb = a[-1], b[0]
    ida = la.isalnum() or la == "_"
    idb = fb.isalnum() or fb == "_"
    if a[0] in "'\"" or b[0] in "'\"":
        return False
    if a[0].isdigit():
        # a number ends at the first non-digit, except for one `.digit` fraction
        if fb.isdigit():
            return True
        if "." not in a and b == ".":
            return False
        return False
    if (ida or a == "$") and idb:
        return True
    if a in DOUBLE and fb in DOUBLE[a]:
        return True
    return False


def discover_tags(run_impl, hx):
    """token text/kind -> integer tag of the implementation, read off a LEX of one token of every kind"""
    res = run_impl(["LEX tagprobe %s" % hx(PROBE)])
    f = res.get("tagprobe", [])
    names = ["Ident", "Str", "Num", "$"] + sorted(KEYWORDS) + OPERATORS + ["EOF"]
    if len(f) < 2 or f[1] != "ok":
        return None
    tags = [t.split(":")[0] for t in f[0].split(",")]
    if len(tags) != len(names):
        return None
    return dict(zip(names, tags))


def sexpr_parse(text):
    """nested lists of a PARSE / PARSEEXPR S-expression"""
    toks = text.replace("(", " ( ").replace(")", " ) ").split()
    pos = [0]

    def go():
        t = toks[pos[0]]
        pos[0] += 1
        if t == "(":
            out = []
            while toks[pos[0]] != ")":
                out.append(go())
            pos[0] += 1
            return out
        return t
    return go()


def literal_spans(sx, tag):
    """the (pos, len) of every (lit TAG pos len) node with the given tag"""
    out = set()

    def go(x):
        if isinstance(x, list):
            if len(x) == 4 and x[0] == "lit" and x[1] == tag:
                out.add((int(x[2]), int(x[3])))
            for y in x:
                go(y)
    go(sx)
    return out
