"""Shared machinery of the checks: building case files, running the Go harness (jqh) and the
extracted Coq model (jqmodel) on them, comparing projected observables."""
import os, sys, json, subprocess, tempfile, shutil, hashlib, random, resource, time
from concurrent.futures import ThreadPoolExecutor

VERIF = os.path.dirname(os.path.dirname(os.path.abspath(__file__)))
BUILD = os.path.join(VERIF, ".build")
JQH = os.path.join(BUILD, "jqh")
JQMODEL = os.path.join(BUILD, "ocaml", "jqmodel")
JQAWK = os.path.join(BUILD, "jqawk")
NPROC = int(os.environ.get("VERIF_JOBS", "16"))


def hx(b):
    if isinstance(b, str):
        b = b.encode("utf-8", "surrogateescape")
    return b.hex() if b else "-"


def unhx(s):
    return b"" if s == "-" else bytes.fromhex(s)


# ---------------------------------------------------------------- case lines

def run_case(cid, prog, files=(), selectors=(), fuzz=True):
    """files: list of (name, [chunks], fail)"""
    parts = ["RUN", cid, "1" if fuzz else "0", hx(prog), str(len(selectors))]
    parts += [hx(s) for s in selectors]
    parts.append(str(len(files)))
    for name, chunks, fail in files:
        parts += [hx(name), "1" if fail else "0", str(len(chunks))] + [hx(c) for c in chunks]
    return " ".join(parts)


def simple_run(cid, prog, inputs=(), selectors=(), fuzz=True):
    """inputs: list of JSON texts, each becomes one file delivered in one chunk (split at 512)."""
    files = []
    for i, text in enumerate(inputs):
        b = text.encode("utf-8", "surrogateescape") if isinstance(text, str) else text
        chunks = [b[k:k + 512] for k in range(0, len(b), 512)] or []
        files.append(("<test%d>" % (i + 1), chunks, False))
    return run_case(cid, prog, files, selectors, fuzz)


# ---------------------------------------------------------------- running

MODEL_MEM = int(os.environ.get("VERIF_MODEL_MEM_GB", "6")) << 30


def _set_limits():
    try:
        resource.setrlimit(resource.RLIMIT_STACK, (resource.RLIM_INFINITY, resource.RLIM_INFINITY))
    except Exception:
        pass


def _set_limits_model():
    """the model runs on enormous fuel: a case that allocates without end must die alone (it is
    then reported as 'crash' = inconclusive for that case) instead of taking the machine with it"""
    _set_limits()
    try:
        resource.setrlimit(resource.RLIMIT_AS, (MODEL_MEM, MODEL_MEM))
    except Exception:
        pass


def _run_binary(binary, lines, timeout, isolate_crash=True):
    """Run `binary casefile` and return {id: [fields...]}.  If the process dies, the first
    case without a result is reported as ['crash'] and the rest is re-run."""
    results = {}
    pending = list(lines)
    if not os.path.exists(binary):
        # the harness (or model) could not be built against this tree: nothing can be concluded from these cases
        return {ln.split(" ")[1]: ["noresult"] for ln in pending if len(ln.split(" ")) > 1}
    d = tempfile.mkdtemp(prefix="run-", dir=BUILD)
    try:
        while pending:
            path = os.path.join(d, "cases")
            with open(path, "w") as f:
                f.write("\n".join(pending) + "\n")
            try:
                p = subprocess.run([binary, path], stdout=subprocess.PIPE, stderr=subprocess.PIPE,
                                   timeout=timeout,
                                   preexec_fn=_set_limits_model if binary == JQMODEL else _set_limits)
                out = p.stdout.decode("ascii", "replace")
                died = p.returncode != 0
            except subprocess.TimeoutExpired as e:
                out = (e.stdout or b"").decode("ascii", "replace")
                died = True
            got = 0
            for ln in out.splitlines():
                f = ln.split(" ")
                if len(f) >= 2 and f[0] == "RES":
                    results[f[1]] = f[2:]
                    got += 1
            ids = [ln.split(" ")[1] for ln in pending]
            missing = [i for i in ids if i not in results]
            if not missing:
                break
            if not died and got == 0:
                for i in missing:
                    results[i] = ["noresult"]
                break
            # the first missing case killed the process (or timed out)
            first = missing[0]
            results[first] = ["crash"]
            idx = ids.index(first)
            pending = pending[idx + 1:]
    finally:
        shutil.rmtree(d, ignore_errors=True)
    return results


def run_both(lines, timeout=600, jobs=None):
    """Run all case lines on the implementation harness and on the model, sharded."""
    jobs = jobs or NPROC
    lines = [l for l in lines if l and not l.startswith("#")]
    n = max(1, min(jobs, (len(lines) + 49) // 50))
    shards = [lines[i::n] for i in range(n)]
    impl, model = {}, {}
    with ThreadPoolExecutor(max_workers=2 * n) as ex:
        fi = [ex.submit(_run_binary, JQH, s, timeout) for s in shards]
        fm = [ex.submit(_run_binary, JQMODEL, s, timeout) for s in shards]
        for f in fi:
            impl.update(f.result())
        for f in fm:
            model.update(f.result())
    return impl, model


def run_impl(lines, timeout=600, jobs=None):
    jobs = jobs or NPROC
    lines = [l for l in lines if l and not l.startswith("#")]
    n = max(1, min(jobs, (len(lines) + 49) // 50))
    shards = [lines[i::n] for i in range(n)]
    impl = {}
    with ThreadPoolExecutor(max_workers=n) as ex:
        for f in [ex.submit(_run_binary, JQH, s, timeout) for s in shards]:
            impl.update(f.result())
    return impl


def run_model(lines, timeout=600, jobs=None):
    jobs = jobs or NPROC
    lines = [l for l in lines if l and not l.startswith("#")]
    n = max(1, min(jobs, (len(lines) + 49) // 50))
    shards = [lines[i::n] for i in range(n)]
    model = {}
    with ThreadPoolExecutor(max_workers=n) as ex:
        for f in [ex.submit(_run_binary, JQMODEL, s, timeout) for s in shards]:
            model.update(f.result())
    return model


# ---------------------------------------------------------------- observables of a RUN result

class RunRes:
    """RES <id> <outcome> <line> <col> <srcline> <stdout> <json> <depth> <iolog>"""

    def __init__(self, fields):
        self.raw = fields
        self.outcome = fields[0] if fields else "noresult"
        if len(fields) >= 8:
            self.line, self.col, self.srcline = fields[1], fields[2], fields[3]
            self.stdout = unhx(fields[4])
            self.json = fields[5]
            self.depth = fields[6]
            self.iolog = fields[7]
        else:
            self.line = self.col = self.srcline = "?"
            self.stdout = b""
            self.json = "?"
            self.depth = "?"
            self.iolog = "?"

    @property
    def inconclusive(self):
        return self.outcome in ("timeout", "fuel", "unsupported", "noresult", "stackoverflow", "badcase", "crash")

    def proj(self, position=True, io=False):
        p = [self.outcome, self.stdout, self.json, self.depth]
        if position:
            p += [self.line, self.col, self.srcline]
        if io:
            p.append(self.iolog)
        return tuple(p)


def compare_runs(impl, model, ids, position=True, io=False):
    """Returns (disagreements, inconclusive, agree). A disagreement is (id, impl RunRes, model RunRes)."""
    dis, inc, agree = [], [], 0
    for i in ids:
        a, b = RunRes(impl.get(i, [])), RunRes(model.get(i, []))
        if b.inconclusive or a.outcome in ("timeout", "noresult", "badcase"):
            inc.append((i, a, b))
            continue
        if a.proj(position, io) == b.proj(position, io):
            agree += 1
        else:
            dis.append((i, a, b))
    return dis, inc, agree


def describe(r):
    return {"outcome": r.outcome, "line": r.line, "col": r.col,
            "srcline": unhx(r.srcline).decode("utf-8", "replace") if r.srcline not in ("?", "-") else "",
            "stdout": r.stdout.decode("utf-8", "replace"),
            "json": (unhx(r.json).decode("utf-8", "replace") if r.json not in ("?", "~", "!", "P", "F") else r.json),
            "depth": r.depth, "iolog": r.iolog}


def seed_int():
    try:
        return int(os.environ.get("VERIF_SEED", "1"))
    except ValueError:
        return 1
