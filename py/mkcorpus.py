#!/usr/bin/env python3
"""mkcorpus.py <Cnn> <name> <program-file> <witness_of> : store a BEGIN-only witness program with the output of the UNCHANGED
binary (.build/jqawk, checked by hand against the documented semantics before committing) as corpus/<Cnn>/<name>.json"""
import sys, os, json, subprocess
VERIF = os.path.dirname(os.path.dirname(os.path.abspath(__file__)))
pid, name, pf, wit = sys.argv[1:5]
prog = open(pf).read().rstrip("\n")
p = subprocess.run([os.path.join(VERIF, ".build", "jqawk"), prog], stdin=subprocess.DEVNULL, stdout=subprocess.PIPE, stderr=subprocess.PIPE)
assert p.returncode == 0, p.stderr
d = {"line": "RUN ID 0 %s 0 0" % prog.encode().hex(),
     "meta": {"prog": prog, "inputs": [], "selectors": [], "expect_outcome": "ok", "expect_stdout": p.stdout.decode(), "witness_of": wit},
     "tags": ["corpus"]}
os.makedirs(os.path.join(VERIF, "corpus", pid), exist_ok=True)
json.dump(d, open(os.path.join(VERIF, "corpus", pid, name + ".json"), "w"), indent=1)
print(p.stdout.decode())
