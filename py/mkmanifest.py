#!/usr/bin/env python3
"""Regenerates MANIFEST.json from the registry below: a property is claimed as soon as its
check module py/checks/cNN.py exists."""
import json, os
VERIF = os.path.dirname(os.path.dirname(os.path.abspath(__file__)))

NOTE = ("trusted: Coq 8.16.1 kernel (no axioms: every theorem prints 'Closed under the global context'), translator gen, "
        "extraction (ExtrOcamlBasic only), OCaml driver, Go harness; the model mirrors the Go code and is tied to it by the "
        "generated tables (table strength) and by differential testing on generated cases (testing strength); library oracles "
        "(strconv, encoding/json, regexp fragment, strings, sort, append growth) are validated against Go, not proved equal to Go; "
        "theorems about the evaluator exclude the out-of-fuel outcome explicitly")

REG = {
 "C01": ("Props/C01_nopanic.v run_never_panics + run_endings: for every program text, selectors and input a run of the model ends in ok / syntax / runtime / json error (or the model artefacts fuel/unsupported), never in a Panic site and never with a leaked control-flow signal; parse_wf_signals, parse_no_panic, signals absorbed; tied to Go by correspondence on generated and mutated programs and by running the real binary (exit status, no stack trace). Go stack exhaustion is outside the model (open finding F-C20-stack).",
         "invariant proof over the evaluator monad (region heap invariant, frames, token spans) + parser well-formedness proof + correspondence + binary probes"),
 "C02": ("Props/C02_schedule.v: run_body refines an abstract awk scheduler for arbitrary rule executors (run_refines_schedule); rules_partition, source_order, pattern_gates_body, next_local, exit_global, error_global, elements_in_index_order, begin/end/file bindings; tied to Go by tracing programs whose expected trace an independent Python scheduler computes.",
         "refinement proof (driver = abstract schedule) + correspondence + independent schedule oracle"),
 "C03": ("Props/C03_stream.v (Json/StreamProofs.v): one Decode call = decode_next on the remaining stream, chunking_independent, reads_minimal (a Read is issued only when the buffered bytes do not complete the value), prefix stability of complete values; Props/C02_schedule.v: the decode loop processes values one after another; the decoder model is validated against encoding/json on 70k streams incl. Read/EOF/failure event order; real pipes are observed on the binary (partial: OS pipe behaviour is not modelled).",
         "proof about the streaming decoder model + correspondence incl. read/write interleaving log + pipe probe"),
 "C04": ("Props/C04_json.v, C04_roundtrip.v: to_go_new_value (every decoded document converts back to itself, empty containers at every depth), to_go_cyclic_error, to_go_inexpressible, to_go_terminates, json_never_malformed; marshal_never_malformed / marshal_roundtrip_eq for the encoder against the decoder (number round trip proved for the positional range, a stated hypothesis for exponent notation); tied to Go by documents round-tripped through -o / json() and parsed by Python's json.",
         "round-trip and termination proofs + correspondence + independent JSON parser oracle"),
 "C05": ("Props/C05_operators.v: binop_table / unop_table / regex_table / is_table: the model's operators equal flat tables over operand kinds (DESIGN.md section 3) for ALL values, with corollaries (division/modulo error iff zero divisor, unset/null/container rules, truthiness) and one-step evaluator laws (short circuit, left-then-right); tied to Go by exhaustive operator x kind x kind programs with an independent Python oracle.",
         "table refinement proof + exhaustive correspondence + independent operator oracle"),
 "C06": ("Props/C06_syntax.v: table_matches_spec (generated Pratt table = documented precedence table), parse_render / parse_paren / parse_print (minimal, full and any redundant parenthesisation of any expression parse to the same tree, any depth), fuel_mono; Props/C06_evaluates_identically.v: evaluation depends on an AST only through tags and token texts, hence render_paren_evaluate_identically; tied to Go by AST and value comparison of both renderings.",
         "Pratt-parser correctness proof over the generated table + position-independence proof of the evaluator + metamorphic correspondence"),
 "C07": ("Props/C07_control.v: the documented statement semantics as exact equations of the model for all bodies and states (block_seq, if, while_unroll, for_desugar, for_post_after_continue, forin folds over arrays/objects/strings in order, loops absorb break/continue, return leaves nested loops, call laws), else_binds_to_nearest_if for every program; tied to Go by labelled trace programs interpreted independently.",
         "equational laws proved of the evaluator + parser lemma + correspondence + independent skeleton interpreter"),
 "C08": ("Props/C08_frames.v: frames_balanced (every evaluator function leaves the stack of frame names as it found it for every non-panic outcome), call_balanced, match_balanced, history_independent, sequential_calls_do_not_accumulate; C20_depth depth_invariant; tied to Go by call/match programs and long histories with the frame depth read by reflection.",
         "invariant proof over the evaluator monad + correspondence incl. frame depth + long-history probes"),
 "C09": ("Props/C09_reads.v: read_pure / document_unchanged / root_json_unchanged (a pure expression leaves every documented location and the JSON output unchanged); Props/C09_stores.v: copy_value_table, set_member_fill_shape, set_member_object, element stores shared; Props/C09_creates.v: assign_creates_member (missing member, or a member named like a prototype method), assign_creates_intermediate_object, assign_creates_intermediate_array (padded with null), each with exact frame conditions; Props/C09_incdec.v: incdec_plain / incdec_missing_member (++ and -- store old+-1 and yield the old or the new value in a fresh cell; on a missing member they create it); the sharing clause for length-changing operations is REFUTED in the faithful slice model (array_length_change_not_shared_refuted: open finding F-C09-alias, reported as KNOWN-FINDING); tied to Go by path-assignment programs with a Python reference.",
         "frame/purity proofs over the heap model + refutation witness + correspondence + independent path-store oracle"),
 "C10": ("Props/C10_determinism.v: the run is a function of program, selectors and input only (no process-global state in the model: prototypes are immutable tables), objects are canonical (assoc_set_commute, object_order_canonical: printing and for-in cannot depend on insertion order); tied to Go by repeated in-process and fresh-process runs compared byte for byte.",
         "canonical-form proofs + repeated-run comparison on the implementation"),
 "C11": ("Props/C11_faults.v: output_monotone, fault_stops (an error is the last event of the log in every syntactic position), failure_never_ignored (no catch site turns an error into success), syntax_error_silent; tied to Go by fault splices at every evaluated position with the prefix oracle.",
         "invariant proofs over the evaluator monad with a ghost raise event + correspondence + metamorphic prefix oracle"),
 "C12": ("Props/C12_positions.v: line_text_consistent and pos_exact for EVERY offset up to the end of the text (quoted line is line N, column inside it, caret on the byte), lexer errors exactly on the character / opening quote, every parser error offset and AST token inside the source; Props/C12_token_in_node.v: the token a node is reported at lies in every interval containing the node's stored tokens; tied to Go by planted faults in multi-line programs and direct GetLineAndCol comparison.",
         "list-arithmetic proofs about the position renderer + parser span invariant + correspondence on positions"),
 "C13": ("Props/C13_lexer.v: number_never_absorbs, keyword_whole_word, quotes_interchangeable, ws_insensitive, lex_render_layout, expr_layout/gaps_insensitive; with C06_evaluates_identically: any two writings of an expression's tokens evaluate identically; statement-level layout is covered by the metamorphic correspondence (re-layouts of token sequences) and a certified per-pair checker (program_equivb_sound), not by a general theorem (partial).",
         "lexer/parser layout proofs + position-independence proof + metamorphic re-layout correspondence"),
 "C14": ("Props/C14_cli.v over the CLI model: f_equals_inline, o_file_equals_o_dash, exit_status_iff, o_needs_single_input, unreadable_input_no_run, stdin_equals_file, selectors/inputs in order; the model is tied to cli.Run by running the real binary on generated configurations and comparing with the library (the property is that relation).",
         "proofs over the CLI model + binary-vs-library correspondence"),
 "C15": ("Props/C15_arrays.v: array_refines_list (any history of push/pop/popfirst/index/store/length/contains/sort through a holder equals the ideal list), frame_history (two holders do not interfere), contains_is_eq, sort_stable_copy; tied to Go by operation histories with nested method calls and a Python list oracle.",
         "refinement to an ideal list by induction over histories + correspondence + independent list oracle"),
 "C16": ("Props/C16_methods.v (pluck_spec, methods_total: no native ever panics, neutral values, arity errors), C16_numbers.v (floor/ceil/round bracketing specs, int conversion, parse sanity), C16_strings.v (split_join, split_no_sep, case mapping laws, stable sort); tied to Go by method calls on all receiver/argument kinds with algebraic-law oracles.",
         "contract proofs for natives and library oracles + correspondence + law oracles"),
 "C17": ("Props/C17_print.v: print_shape, pretty_scalars, pretty_terminates (every well-formed heap, cyclic or not), pretty_cycle_marker, number_reads_back, number_positional; C17_render_json.v: pretty_is_json; format_f_roundtrip; tied to Go by printed doubles read back bit for bit, shared and cyclic structures.",
         "termination (pigeonhole) and rendering proofs + number round-trip proof + correspondence + read-back oracle"),
 "C18": ("Props/C18_printf.v: printf_format refines an independent grammar-directed specification for every format and argument list (printf_refines_spec, printf_out_iff) with corollaries width_pads, never_truncates, error_writes_nothing, width_limit over the generated limit; tied to Go by generated formats with an independent Python oracle.",
         "refinement proof (printf model = format grammar spec) + correspondence + independent oracle"),
 "C19": ("Props/C19_match.v: first_case_wins, later_cases_untouched, literal_pattern_is_eq, ident_pattern_binds, array_pattern_spec (model matcher = structural matcher), bindings_visible_in_body, block_body_null, match_frame_popped; tied to Go by generated subjects x case lists with a Python matcher.",
         "refinement to a structural matcher + correspondence + independent match oracle"),
 "C20": ("Props/C20_depth.v (depth_invariant, push_refused_iff, below_limit_ok, refused push is a runtime error), C20_fill.v (fill refused above / accepted at the generated limit, allocation bound), C20_width.v; JSON nesting limit in the decoder model; tied to Go by boundary programs derived from the generated constants. Go stack use proportional to call depth x expression nesting is NOT bounded: open finding F-C20-stack (KNOWN-FINDING).",
         "invariant and boundary proofs over generated limits + boundary correspondence + isolated crash probe"),
}


def main():
    props = [json.loads(l)["id"] for l in open(os.path.join(VERIF, "properties.jsonl"))]
    checks, na = [], []
    for p in props:
        if os.path.exists(os.path.join(VERIF, "py", "checks", p.lower() + ".py")):
            text, tech = REG[p]
            checks.append({
                "property_id": p, "quick_cmd": "./check %s --tier quick" % p, "thorough_cmd": "./check %s --tier thorough" % p,
                "evidence_file": "evidence/%s.json" % p, "replay_cmd_template": "./check %s --replay {path}" % p,
                "engine": "jqmodel-coq",
                "level_claimed": {"category": "proof", "text": text, "design_ref": "4, " + p},
                "level_note": NOTE, "technique": tech})
        else:
            na.append({"property_id": p, "reason": "check module not registered yet (construction in progress; theorems for it already exist under coq/theories/Props; see DESIGN.md section 4)"})
    m = {"version": 1, "setup_cmd": "./setup.sh",
         "hooks": {"guard": "verif", "enable": "go build -tags verif (no hook is needed: everything observed goes through the exported API plus read-only reflection in the harness)",
                   "baseline_off_cmd": "cd /repo && go test -json -vet=off -count=1 -timeout 25m ./...", "source_commits": [], "add_only": True},
         "engines": [
             {"name": "jqmodel-coq", "path": "coq/", "serves_properties": props, "kind_free_text": "Coq 8.16.1 development: executable model of jqawk (lexer, Pratt parser, evaluator, JSON, CLI), specs and theorems"},
             {"name": "jqmodel-ocaml", "path": "ocaml/", "serves_properties": props, "kind_free_text": "extracted model + driver, runs the same case files as the harness"},
             {"name": "jqh", "path": "harness/", "serves_properties": props, "kind_free_text": "Go harness running /repo's library API and standard-library oracles on case files"},
             {"name": "gen", "path": "gen/", "serves_properties": props, "kind_free_text": "translator /repo/src/*.go -> Gen/Generated.v (tables, limits)"}],
         "checks": checks,
         "notes": "every check: proofs re-checked (make + Props recompiled), generated tables regenerated from /repo, correspondence on generated cases, property oracle on the implementation; see DESIGN.md"}
    m["not_applicable"] = na
    json.dump(m, open(os.path.join(VERIF, "MANIFEST.json"), "w"), indent=1)
    print("claimed:", [c["property_id"] for c in checks])


if __name__ == "__main__":
    main()
