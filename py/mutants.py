#!/usr/bin/env python3
"""Run checks against seeded changes: applies seeded/<id>/patch.diff in a scratch worktree of /repo
(never in /repo itself), points the build at it (VERIF_REPO), runs the given checks, removes the worktree.
usage: mutants.py <seeded-id|all> [Cnn ...]   (default: the property named in meta.json)"""
import os, sys, json, subprocess, tempfile, shutil
VERIF = os.path.dirname(os.path.dirname(os.path.abspath(__file__)))

def run(mid, pids):
    d = os.path.join(VERIF, "seeded", mid)
    meta = json.load(open(os.path.join(d, "meta.json")))
    pids = pids or [meta["property"]]
    wt = tempfile.mkdtemp(prefix="mutwt-", dir="/tmp")
    os.rmdir(wt)
    subprocess.run(["git", "-C", "/repo", "worktree", "add", "-q", "--detach", wt, "HEAD"], check=True)
    res = {}
    try:
        subprocess.run(["git", "-C", wt, "apply", os.path.join(d, "patch.diff")], check=True)
        env = dict(os.environ, VERIF_REPO=wt)
        for pid in pids:
            p = subprocess.run([os.path.join(VERIF, "check"), pid, "--tier", "quick"], env=env,
                               stdout=subprocess.PIPE, stderr=subprocess.STDOUT, cwd=VERIF)
            out = p.stdout.decode("utf-8", "replace")
            viol = [l for l in out.splitlines() if l.startswith("VIOLATION")]
            res[pid] = (p.returncode, viol[:1], out.strip().splitlines()[-1] if out.strip() else "")
    finally:
        subprocess.run(["git", "-C", "/repo", "worktree", "remove", "--force", wt])
        # restore the build for the real tree
        subprocess.run([sys.executable, os.path.join(VERIF, "py", "build.py")], stdout=subprocess.DEVNULL)
    return res

if __name__ == "__main__":
    import fnmatch
    every = sorted(os.listdir(os.path.join(VERIF, "seeded")))
    ids = every if sys.argv[1] == "all" else [] if sys.argv[1] == "merge" else (fnmatch.filter(every, sys.argv[1]) if "*" in sys.argv[1] else [sys.argv[1]])
    rows = []
    for mid in ids:
        if not os.path.exists(os.path.join(VERIF, "seeded", mid, "patch.diff")):
            continue
        meta = json.load(open(os.path.join(VERIF, "seeded", mid, "meta.json")))
        pids = sys.argv[2:] or [meta["property"]]
        pids = [p for p in pids if os.path.exists(os.path.join(VERIF, "py", "checks", p.lower() + ".py"))]
        if not pids:
            print("%-28s (no check registered yet for %s)" % (mid, meta["property"]))
            continue
        r = run(mid, pids)
        for pid, (rc, viol, last) in r.items():
            det = rc == 1 and bool(viol)
            how = ""
            if det:
                rp = viol[0].split("replay=")[1].split(" ")[0]
                try:
                    d = json.load(open(os.path.join(VERIF, rp)))
                    how = (d.get("why") or d.get("kind") or "")[:160].replace("\n", " ").replace("|", "/")
                except Exception:
                    pass
                if viol[0].endswith("no-failing-input-found"):
                    how = "(obligation only, no failing input) " + how
            print("%-28s %s rc=%d %s | %s" % (mid, pid, rc, "DETECTED" if det else "MISSED", (viol or [last])[0][:150]), flush=True)
            rows.append((mid, pid, "detected" if det else "MISSED", (meta.get("summary") or meta.get("what_breaks") or "")[:140].replace("|", "/").replace("\n", " "), how))
    # every run leaves its rows behind; `mutants.py merge` (and `all`) write DETECTION.md from all of them
    rdir = os.path.join(VERIF, "seeded", ".rows")
    os.makedirs(rdir, exist_ok=True)
    if sys.argv[1] != "merge":
        for r in rows:
            json.dump(list(r), open(os.path.join(rdir, "%s.%s.json" % (r[0], r[1])), "w"))
    if sys.argv[1] in ("all", "merge"):
        rows = sorted(tuple(json.load(open(os.path.join(rdir, n)))) for n in os.listdir(rdir) if n.endswith(".json"))
        rows = [r for r in rows if os.path.exists(os.path.join(VERIF, "seeded", r[0], "patch.diff"))]
        with open(os.path.join(VERIF, "seeded", "DETECTION.md"), "w") as f:
            f.write("# Seeded changes vs checks (quick tier, VERIF_SEED=1; written by `python3 py/mutants.py all` or, after partial runs, `python3 py/mutants.py merge`)\n\n")
            f.write("| seeded change | check | result | what the change does | first failing input reported |\n|---|---|---|---|---|\n")
            for r in rows:
                f.write("| %s | %s | %s | %s | %s |\n" % r)
            n = len(rows); k = len([r for r in rows if r[2] == "detected"])
            f.write("\n%d of %d detected.\n" % (k, n))
