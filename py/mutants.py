#!/usr/bin/env python3
"""Run checks against seeded changes: applies seeded/<id>/patch.diff in a scratch worktree of /repo
(never in /repo itself), points the build at it (VERIF_REPO), runs the given checks, removes the worktree.
usage: mutants.py <seeded-id|all> [Cnn ...]   (default: the property named in meta.json)"""
import os, sys, json, subprocess, tempfile, shutil
VERIF = os.path.dirname(os.path.dirname(os.path.abspath(__file__)))

def run(mid, pids):
    d = os.path.join(VERIF, "seeded", mid)
    meta = json.load(open(os.path.join(d, "meta.json")))
    pids = pids or [meta["property"]]
    wt = tempfile.mkdtemp(prefix="mutwt-", dir="/tmp")
    os.rmdir(wt)
    subprocess.run(["git", "-C", "/repo", "worktree", "add", "-q", "--detach", wt, "HEAD"], check=True)
    res = {}
    try:
        subprocess.run(["git", "-C", wt, "apply", os.path.join(d, "patch.diff")], check=True)
        env = dict(os.environ, VERIF_REPO=wt)
        for pid in pids:
            p = subprocess.run([os.path.join(VERIF, "check"), pid, "--tier", "quick"], env=env,
                               stdout=subprocess.PIPE, stderr=subprocess.STDOUT, cwd=VERIF)
            out = p.stdout.decode("utf-8", "replace")
            viol = [l for l in out.splitlines() if l.startswith("VIOLATION")]
            res[pid] = (p.returncode, viol[:1], out.strip().splitlines()[-1] if out.strip() else "")
    finally:
        subprocess.run(["git", "-C", "/repo", "worktree", "remove", "--force", wt])
        # restore the build for the real tree
        subprocess.run([sys.executable, os.path.join(VERIF, "py", "build.py")], stdout=subprocess.DEVNULL)
    return res

if __name__ == "__main__":
    ids = sorted(os.listdir(os.path.join(VERIF, "seeded"))) if sys.argv[1] == "all" else [sys.argv[1]]
    for mid in ids:
        if not os.path.exists(os.path.join(VERIF, "seeded", mid, "patch.diff")):
            continue
        r = run(mid, sys.argv[2:])
        for pid, (rc, viol, last) in r.items():
            print("%-28s %s rc=%d %s | %s" % (mid, pid, rc, "DETECTED" if rc == 1 and viol else "MISSED", (viol or [last])[0][:150]))
