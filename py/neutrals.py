#!/usr/bin/env python3
"""Run every quick check against behaviour-preserving changes: applies neutral/<id>/patch.diff in a scratch
worktree of /repo (never in /repo itself), points the build at it (VERIF_REPO), runs all checks, removes the
worktree.  Every check is expected to stay silent (exit 0, no VIOLATION line); a check that is not silent is
either a false alarm of the machinery or a refactor that was not behaviour-preserving after all -- the
replay says which.   usage: neutrals.py <id|all> [Cnn ...]"""
import os, sys, json, subprocess, tempfile
VERIF = os.path.dirname(os.path.dirname(os.path.abspath(__file__)))
ALL = ["C%02d" % i for i in range(1, 21)]


def run(nid, pids):
    d = os.path.join(VERIF, "neutral", nid)
    wt = tempfile.mkdtemp(prefix="neutwt-", dir="/tmp")
    os.rmdir(wt)
    subprocess.run(["git", "-C", "/repo", "worktree", "add", "-q", "--detach", wt, "HEAD"], check=True)
    rows = []
    try:
        subprocess.run(["git", "-C", wt, "apply", os.path.join(d, "patch.diff")], check=True)
        env = dict(os.environ, VERIF_REPO=wt)
        for pid in pids:
            p = subprocess.run([os.path.join(VERIF, "check"), pid, "--tier", "quick"], env=env,
                               stdout=subprocess.PIPE, stderr=subprocess.STDOUT, cwd=VERIF)
            out = p.stdout.decode("utf-8", "replace")
            viol = [l for l in out.splitlines() if l.startswith("VIOLATION")]
            rows.append((pid, p.returncode, viol[:1], out.strip().splitlines()[-1] if out.strip() else ""))
    finally:
        subprocess.run(["git", "-C", "/repo", "worktree", "remove", "--force", wt])
        subprocess.run([sys.executable, os.path.join(VERIF, "py", "build.py")], stdout=subprocess.DEVNULL)
    return rows


if __name__ == "__main__":
    ids = sorted(os.listdir(os.path.join(VERIF, "neutral"))) if sys.argv[1] == "all" else [sys.argv[1]]
    pids = sys.argv[2:] or ALL
    for nid in ids:
        if not os.path.exists(os.path.join(VERIF, "neutral", nid, "patch.diff")):
            continue
        rows = run(nid, pids)
        noisy = [(pid, rc, v, last) for pid, rc, v, last in rows if rc != 0 or v]
        print("%-16s %d checks, %s" % (nid, len(rows), "all silent" if not noisy else "NOT SILENT: " + "; ".join("%s rc=%d %s" % (pid, rc, (v or [last])[0][:140]) for pid, rc, v, last in noisy)))
        sys.stdout.flush()
