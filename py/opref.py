"""Extension of pyref for the operator properties (C05, C06): the value kinds JSON cannot carry
(regex, user function, native function), the unary operators, `is`, truthiness of every kind,
and ~ / !~ against Python's `re` for patterns in the common subset of RE2 and Python.
Independent of the model: only pyref (documented coercions) and the Python standard library."""
import math, re
import pyref
from pyref import UNSET, RuntimeErr


class Regex:
    def __init__(self, src):
        self.src = src

    def __repr__(self):
        return "Regex(%r)" % self.src

    def __eq__(self, o):
        return isinstance(o, Regex) and o.src == self.src

    def __hash__(self):
        return hash(("re", self.src))


class _Marker:
    def __init__(self, name):
        self.name = name

    def __repr__(self):
        return self.name


FUNC = _Marker("FUNC")        # a user function
NATIVE = _Marker("NATIVE")    # a built-in function


def kind(v):
    if isinstance(v, Regex):
        return "regex"
    if v is FUNC:
        return "function"
    if v is NATIVE:
        return "native"
    return pyref.kind(v)


def truthy(v):
    if isinstance(v, Regex):
        return False
    if v is FUNC or v is NATIVE:
        return True
    return pyref.truthy(v)


def pretty(v):
    if isinstance(v, Regex):
        return "<regex>"
    if v is FUNC:
        return "<function>"
    if v is NATIVE:
        return "<nativefunction>"
    return pyref.pretty(v)


def num(v):
    return pyref.num(v)


def strform(v):
    return pyref.strform(v)


def unop(op, v):
    if op == "!":
        return not truthy(v)
    if op == "+":
        return num(v)
    if op == "-":
        return -num(v)
    raise ValueError(op)


IS_NAMES = {"string": "str", "bool": "bool", "number": "num", "array": "array", "object": "object",
            "regex": "regex", "unknown": "unset", "function": "function", "null": "null"}


def isop(v, name):
    """`v is NAME`: any other identifier is false; native functions are of no named type."""
    want = IS_NAMES.get(name)
    return want is not None and kind(v) == want


def match(op, l, r):
    """l ~ r / l !~ r: the string form of l contains a match of the pattern r (string or regex)."""
    if isinstance(r, Regex):
        pat = r.src
    elif isinstance(r, str):
        pat = r
    else:
        raise RuntimeErr("a regex or a string must appear on the right hand side of ~")
    try:
        rx = re.compile(pat)
    except re.error:
        raise RuntimeErr("bad pattern")
    m = rx.search(strform(l)) is not None
    return m if op == "~" else not m


ARITH = ("+", "-", "*", "/", "%")
CMP = ("==", "!=", "<", "<=", ">", ">=")


def binop(op, l, r):
    """value-level binary operator for every kind (no short circuit here: && || on two values)."""
    if op in ("~", "!~"):
        return match(op, l, r)
    if op == "&&":
        return truthy(l) and truthy(r)
    if op == "||":
        return truthy(l) or truthy(r)
    return pyref.binop(op, l, r)


def literal(v):
    """source text of a value, including the kinds pyref.literal does not know; numbers are written
    as plain digit strings (the lexer has no exponent syntax), non-finite ones through +"inf"."""
    if isinstance(v, Regex):
        return "/" + v.src + "/"
    if v is FUNC:
        return "fn_user"
    if v is NATIVE:
        return "printf"
    if isinstance(v, float) and (math.isinf(v) or v != v):
        if v != v:
            return '(+"nan")'
        return '(+"inf")' if v > 0 else '(-"inf")'
    if isinstance(v, list):
        return "[" + ", ".join(literal(x) for x in v) + "]"
    if isinstance(v, dict):
        return "{" + ", ".join("%s: %s" % (k, literal(x)) for k, x in v.items()) + "}"
    return pyref.literal(v)
