"""Independent Python reference for the documented behaviour of jqawk values: used by the
property oracles (never by the model). Values: float, str (as bytes-like latin? -> we use
Python str for text we generate, which is ASCII or valid UTF-8), bool, None, list, dict,
UNSET."""
import math, struct
from decimal import Decimal


class Unset:
    def __repr__(self):
        return "UNSET"


UNSET = Unset()


def fmt_f(x):
    """strconv.FormatFloat(x, 'f', -1, 64): shortest digits that round-trip, positional."""
    if x != x:
        return "NaN"
    if x == math.inf:
        return "+Inf"
    if x == -math.inf:
        return "-Inf"
    if x == 0:
        return "-0" if math.copysign(1, x) < 0 else "0"
    d = Decimal(repr(float(x)))
    s = format(d, "f")
    if "." in s:
        s = s.rstrip("0").rstrip(".")
    return s


def pretty(v, quote=False):
    if isinstance(v, bool):
        return "true" if v else "false"
    if v is None:
        return "null"
    if v is UNSET:
        return "<unknown>"
    if isinstance(v, (int, float)):
        return fmt_f(float(v))
    if isinstance(v, str):
        return '"' + v + '"' if quote else v
    if isinstance(v, list):
        return "[" + ", ".join(pretty(x, True) for x in v) + "]"
    if isinstance(v, dict):
        return "{" + ", ".join('"%s": %s' % (k, pretty(v[k], True)) for k in sorted(v, key=lambda s: s.encode())) + "}"
    raise ValueError(v)


def literal(v):
    """jqawk source text of a value (strings must not contain quotes/backslashes/newlines)."""
    if isinstance(v, bool):
        return "true" if v else "false"
    if v is None:
        return "null"
    if v is UNSET:
        return "unset_var"
    if isinstance(v, (int, float)):
        x = float(v)
        if x < 0 or (x == 0 and math.copysign(1, x) < 0):
            return "(-" + fmt_f(-x) + ")"
        return fmt_f(x)
    if isinstance(v, str):
        q = "'" if '"' in v else '"'
        return q + v + q
    if isinstance(v, list):
        return "[" + ", ".join(literal(x) for x in v) + "]"
    if isinstance(v, dict):
        return "{" + ", ".join("%s: %s" % (k, literal(x)) for k, x in v.items()) + "}"
    raise ValueError(v)


def truthy(v):
    if isinstance(v, bool):
        return v
    if v is None or v is UNSET:
        return False
    if isinstance(v, (int, float)):
        return v != 0
    if isinstance(v, str):
        return v != ""
    return True


def parse_float(s):
    """strconv.ParseFloat for the spellings our generators use (decimal, exponent, inf/nan, underscores
    are NOT generated). Returns None on error."""
    t = s
    if not t or t != t.strip():
        return None
    low = t.lower()
    body = low[1:] if low[:1] in "+-" else low
    if body in ("inf", "infinity"):
        return -math.inf if low[0] == "-" else math.inf
    if low == "nan":
        return math.nan
    import re
    if not re.fullmatch(r"[+-]?(\d+\.?\d*|\.\d+)([eE][+-]?\d+)?", t):
        return None
    try:
        x = float(t)
    except ValueError:
        return None
    if math.isinf(x):
        return None     # ErrRange
    return x


def num(v):
    """N(v) of DESIGN.md 3.2"""
    if isinstance(v, bool):
        return 1.0 if v else 0.0
    if isinstance(v, (int, float)):
        return float(v)
    if isinstance(v, str):
        x = parse_float(v)
        return 0.0 if x is None else x
    return 0.0


def strform(v):
    if isinstance(v, bool):
        return ""
    if isinstance(v, (int, float)):
        return fmt_f(float(v))
    if isinstance(v, str):
        return v
    return ""


def trunc_int64(x):
    if x != x or math.isinf(x) or x >= 2.0 ** 63 or x < -2.0 ** 63:
        return -2 ** 63
    return int(x)


def kind(v):
    if isinstance(v, bool):
        return "bool"
    if v is None:
        return "null"
    if v is UNSET:
        return "unset"
    if isinstance(v, (int, float)):
        return "num"
    if isinstance(v, str):
        return "str"
    if isinstance(v, list):
        return "array"
    if isinstance(v, dict):
        return "object"
    return "?"


class RuntimeErr(Exception):
    pass


def compare(l, r):
    """cmp of DESIGN.md 3.4: returns -1/0/1 or raises RuntimeErr"""
    if l is None and r is None:
        return 0
    if l is None:
        return -1
    if r is None:
        return 1
    if kind(l) in ("array", "object") or kind(r) in ("array", "object"):
        raise RuntimeErr("cannot compare")
    if kind(l) == "str" and kind(r) == "str":
        a, b = l.encode(), r.encode()
        return (a > b) - (a < b)
    a, b = num(l), num(r)
    return 1 if a > b else (-1 if a < b else 0)


def binop(op, l, r):
    """documented result of a value-level binary operator; raises RuntimeErr"""
    if op in ("==", "!=", "<", "<=", ">", ">="):
        if l is UNSET or r is UNSET:
            return op in ("<", ">")
        c = compare(l, r)
        return {"==": c == 0, "!=": c != 0, "<": c < 0, "<=": c <= 0, ">": c > 0, ">=": c >= 0}[op]
    if op == "+" and (kind(l) == "str" or kind(r) == "str"):
        return strform(l) + strform(r)
    a, b = num(l), num(r)
    if op == "+":
        return a + b
    if op == "-":
        return a - b
    if op == "*":
        try:
            return a * b
        except OverflowError:
            return math.inf
    if op == "/":
        if b == 0:
            raise RuntimeErr("divide by zero")
        try:
            return a / b
        except OverflowError:
            return math.copysign(math.inf, a) * math.copysign(1, b)
    if op == "%":
        ai, bi = trunc_int64(a), trunc_int64(b)
        if bi == 0:
            raise RuntimeErr("divide by zero")
        q = abs(ai) % abs(bi)
        return float(-q if ai < 0 else q)
    raise ValueError(op)
