#!/bin/sh
# run every registered check (quick tier by default) on the current tree; prints one line per check
cd "$(dirname "$0")/.."
TIER=${1:-quick}
for f in py/checks/c[0-9][0-9].py; do
  p=$(basename $f .py | tr c C)
  out=$(./check $p --tier $TIER 2>&1)
  rc=$?
  echo "$p rc=$rc $(echo "$out" | grep -c '^KNOWN-FINDING') known | $(echo "$out" | grep '^VIOLATION' | head -1) | $(echo "$out" | tail -1)"
done
