"""Independent Python reference for reads and stores through paths (DESIGN.md 3.4 member/index table and
3.6 stores) on trees of Python values: float, str, bool, None, list, dict, pyref.UNSET.  Used by the oracles
of C04 and C09 (never by the model).

A path is (base, keys): base is a variable name ("$" for the document), keys a list of float / str.
`.name` and `["name"]` are the str key "name"; `[2]`, `[-1]`, `[1.7]` are float keys.

Containers are Python objects and therefore shared by reference: this is the ideal the property asks for
(a mutation through one reference is visible through every other reference)."""
import math, struct
import pyref
from pyref import UNSET

FILL_LIMIT = 1024 * 1024
METHOD_NAMES = {"length", "push", "pop", "popfirst", "contains", "sort", "pluck", "split", "lower", "upper",
                "floor", "ceil", "round"}


KEYWORDS = {"BEGIN", "END", "BEGINFILE", "ENDFILE", "print", "function", "return", "if", "else", "for", "while", "in", "match", "true",
            "false", "break", "continue", "next", "exit", "null", "is"}


def dotted(k):
    """can the key be written as .k ?"""
    return k.isidentifier() and k.isascii() and k not in KEYWORDS


class RErr(Exception):
    """the documented outcome is a runtime error"""


class Unspecified(Exception):
    """the documented behaviour says nothing here (generator must not produce it)"""


class _Absent:
    def __repr__(self):
        return "ABSENT"


ABSENT = _Absent()


def trunc(k):
    return int(k)      # toward zero, like Go's int(x) for the small finite values we use


def skey(k):
    """object key of an index value"""
    return pyref.fmt_f(k) if isinstance(k, float) else k


def member(v, k):
    """(value | ABSENT) of v[k] for a present value v; raises RErr"""
    if isinstance(v, bool) or v is None:
        return ABSENT
    if isinstance(v, list):
        if isinstance(k, str):
            if k in METHOD_NAMES:
                raise Unspecified("method name")
            return ABSENT
        i = trunc(k)
        if i < 0:
            i += len(v)
            if i < 0:
                raise RErr("index out of range")
        if i < len(v):
            return v[i]
        return ABSENT
    if isinstance(v, dict):
        key = skey(k)
        if key in v:
            return v[key]
        if key in METHOD_NAMES:
            raise Unspecified("method name")
        return ABSENT
    if isinstance(v, str):
        if isinstance(k, str):
            if k in METHOD_NAMES:
                raise Unspecified("method name")
            return ABSENT
        b = v.encode()
        i = trunc(k)
        if 0 <= i < len(b):
            if b[i] >= 0x80:
                raise Unspecified("byte of a multi-byte character")
            return chr(b[i])
        return None
    if isinstance(v, float):
        if isinstance(k, str) and k in METHOD_NAMES:
            raise Unspecified("method name")
        return ABSENT
    raise Unspecified(repr(v))


def _vivify(env, base, keys):
    """an unset base that is indexed becomes [] (numeric key) or {} (other key)"""
    if env.get(base, UNSET) is UNSET and keys:
        env[base] = [] if isinstance(keys[0], float) else {}


def read(env, base, keys):
    """value of the path as an expression (ABSENT reads as null)"""
    _vivify(env, base, keys)
    cur = env.get(base, UNSET)
    for k in keys:
        if cur is ABSENT:
            continue
        cur = member(cur, k)
    return None if cur is ABSENT else cur


def _set_member(parent, k, value):
    if isinstance(parent, list):
        if not isinstance(k, float):
            raise RErr("array indices must be numbers")
        i = trunc(k)
        if i < 0:
            i += len(parent)
            if i < 0:
                raise RErr("index out of range")
        if i >= len(parent):
            if i > FILL_LIMIT:
                raise RErr("index too large")
            parent.extend([None] * (i + 1 - len(parent)))
        parent[i] = value
    elif isinstance(parent, dict):
        parent[skey(k)] = value
    elif parent is None:
        raise RErr("could not create this object")
    else:
        raise RErr("cannot set member on a scalar")


def store(env, base, keys, value):
    """base.keys = value.  Raises RErr where a runtime error is documented."""
    if not keys:
        env[base] = value
        return
    _vivify(env, base, keys)
    cur = env.get(base, UNSET)
    # walk to the parent of the first missing step (or of the target)
    for j, k in enumerate(keys):
        last = j == len(keys) - 1
        if isinstance(cur, str) and isinstance(k, float):
            raise Unspecified("store into a character of a string")
        nxt = member(cur, k)
        if nxt is ABSENT or last:
            # build what hangs below step j
            v = value
            for kk in reversed(keys[j + 1:]):
                c = [] if isinstance(kk, float) else {}
                _set_member(c, kk, v)
                v = c
            _set_member(cur, k, v)
            return
        cur = nxt


def same(a, b):
    """equality of JSON-like trees: kinds must agree, numbers bit for bit"""
    if isinstance(a, bool) or isinstance(b, bool):
        return isinstance(a, bool) and isinstance(b, bool) and a == b
    if isinstance(a, (int, float)) and isinstance(b, (int, float)):
        return struct.pack("<d", float(a)) == struct.pack("<d", float(b))
    if a is None or b is None:
        return a is None and b is None
    if isinstance(a, str) and isinstance(b, str):
        return a == b
    if isinstance(a, list) and isinstance(b, list):
        return len(a) == len(b) and all(same(x, y) for x, y in zip(a, b))
    if isinstance(a, dict) and isinstance(b, dict):
        return a.keys() == b.keys() and all(same(a[k], b[k]) for k in a)
    return False


def samenum(a, b):
    """like same(), but numbers by numeric value (0 == -0)"""
    if isinstance(a, bool) or isinstance(b, bool):
        return isinstance(a, bool) and isinstance(b, bool) and a == b
    if isinstance(a, (int, float)) and isinstance(b, (int, float)):
        return float(a) == float(b)
    if a is None or b is None:
        return a is None and b is None
    if isinstance(a, str) and isinstance(b, str):
        return a == b
    if isinstance(a, list) and isinstance(b, list):
        return len(a) == len(b) and all(samenum(x, y) for x, y in zip(a, b))
    if isinstance(a, dict) and isinstance(b, dict):
        return a.keys() == b.keys() and all(samenum(a[k], b[k]) for k in a)
    return False


class BadJson(Exception):
    pass


def _no_const(name):
    raise BadJson("non-JSON constant " + name)


def _fix_surrogates(v):
    """encoding/json reads an unpaired \\uD800-\\uDFFF escape as U+FFFD"""
    if isinstance(v, str):
        if any(0xD800 <= ord(c) <= 0xDFFF for c in v):
            return "".join("\ufffd" if 0xD800 <= ord(c) <= 0xDFFF else c for c in v)
        return v
    if isinstance(v, list):
        return [_fix_surrogates(x) for x in v]
    if isinstance(v, dict):
        return {_fix_surrogates(k): _fix_surrogates(x) for k, x in v.items()}
    return v


import json as _json
_DEC = _json.JSONDecoder(parse_float=float, parse_int=float, parse_constant=_no_const, strict=True)


def loads(data):
    """strict parse of one JSON text (bytes or str): numbers as doubles.  Raises BadJson."""
    try:
        if isinstance(data, (bytes, bytearray)):
            data = bytes(data).decode("utf-8")
        v, end = _DEC.raw_decode(data, _skip_ws(data, 0))
        if _skip_ws(data, end) != len(data):
            raise BadJson("trailing text")
        return _fix_surrogates(v)
    except BadJson:
        raise
    except (ValueError, UnicodeDecodeError, RecursionError) as e:
        raise BadJson(str(e)[:80])


def _skip_ws(s, i):
    while i < len(s) and s[i] in " \t\r\n":
        i += 1
    return i


def loads_stream(data):
    """strict parse of a whitespace separated sequence of JSON texts"""
    try:
        if isinstance(data, (bytes, bytearray)):
            data = bytes(data).decode("utf-8")
        out = []
        i = _skip_ws(data, 0)
        while i < len(data):
            v, i = _DEC.raw_decode(data, i)
            out.append(_fix_surrogates(v))
            i = _skip_ws(data, i)
        return out
    except BadJson:
        raise
    except (ValueError, UnicodeDecodeError, RecursionError) as e:
        raise BadJson(str(e)[:80])


def src_path(base, keys, rng=None):
    """jqawk source text of a path"""
    s = base
    for k in keys:
        if isinstance(k, float):
            s += "[" + (pyref.fmt_f(k) if k >= 0 else "-" + pyref.fmt_f(-k)) + "]"
        elif dotted(k) and (rng is None or rng.random() < 0.7):
            s += "." + k
        else:
            s += "[" + pyref.literal(k) + "]"
    return s
