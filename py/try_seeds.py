import json, sys
from jqlib import *
seeds = json.load(open(os.path.join(BUILD, "seeds.json")))
lines = []
meta = {}
for k, c in enumerate(seeds):
    if not c["prog"] and c["args"]:
        continue
    cid = "s%d" % k
    inputs = [x for x in (c["json"], c["json2"]) if x]
    lines.append(simple_run(cid, c["prog"], inputs, (), fuzz=c["source"].startswith("fuzz")))
    meta[cid] = c
impl, model = run_both(lines)
dis, inc, agree = compare_runs(impl, model, list(meta), position=True, io=True)
print("agree", agree, "disagree", len(dis), "inconclusive", len(inc))
for i, a, b in dis[:12]:
    print("----", i, meta[i]["name"])
    print(meta[i]["prog"][:300])
    print(" impl ", describe(a))
    print(" model", describe(b))
for i, a, b in inc[:40]:
    print("inc", i, meta[i]["name"], a.outcome, b.outcome)
