"""Helpers shared by the value-level checks (C15, C16, C17, C19): random jqawk values as Python
objects (float, str, bool, None, pyref.UNSET, list, dict), their source text and JSON text."""
import copy, json, math, os, struct
from pyref import UNSET

NUMS = [0.0, 1.0, 2.0, 3.0, -1.0, -2.5, 0.5, 10.0, 9.0, 100.0, 3.25, -0.0, 1e21, 7.0, 0.1]
STRS = ["", "a", "b", "B", "abc", "10", "9", "1", "0", " 1", "é", "1e1", "true", "x y", "-2.5"]
UNSET_NAME = "unset_var"      # never assigned anywhere: pyref.literal(UNSET) spells it


def scalar(rng, unset=True):
    k = rng.random()
    if k < 0.40:
        return rng.choice(NUMS)
    if k < 0.70:
        return rng.choice(STRS)
    if k < 0.80:
        return rng.choice([True, False])
    if k < 0.92 or not unset:
        return None
    return UNSET


def value(rng, depth=2, unset=True, containers=0.3):
    """a random value; containers nest up to `depth` levels"""
    if depth > 0 and rng.random() < containers:
        if rng.random() < 0.7:
            return [value(rng, depth - 1, unset, containers) for _ in range(rng.randint(0, 3))]
        return {rng.choice(["k", "a", "zz", "id"]): value(rng, depth - 1, unset, containers) for _ in range(rng.randint(0, 2))}
    return scalar(rng, unset)


def has_unset(v):
    if v is UNSET:
        return True
    if isinstance(v, list):
        return any(has_unset(x) for x in v)
    if isinstance(v, dict):
        return any(has_unset(x) for x in v.values())
    return False


def to_json(v):
    """JSON text of a value without UNSET (numbers as Python prints them: shortest round-trip)"""
    return json.dumps(v, ensure_ascii=False)


def clone(v):
    """deep copy that keeps internal sharing and the UNSET singleton"""
    return copy.deepcopy(v, {id(UNSET): UNSET})


def bits(x):
    return struct.unpack("<Q", struct.pack("<d", x))[0]


def from_bits(b):
    return struct.unpack("<d", struct.pack("<Q", b))[0]


def rand_finite(rng):
    while True:
        x = from_bits(rng.getrandbits(64))
        if not (math.isinf(x) or math.isnan(x)):
            return x


def jsonable(v):
    """a representation of a value that survives json.dump in a replay file"""
    if v is UNSET:
        return {"$unset": 1}
    if isinstance(v, list):
        return [jsonable(x) for x in v]
    if isinstance(v, dict):
        return {"$obj": {k: jsonable(x) for k, x in v.items()}}
    if isinstance(v, float) and (math.isinf(v) or math.isnan(v)):
        return {"$f": repr(v)}
    return v


def unjsonable(j):
    if isinstance(j, list):
        return [unjsonable(x) for x in j]
    if isinstance(j, dict):
        if "$unset" in j:
            return UNSET
        if "$f" in j:
            return float(j["$f"])
        return {k: unjsonable(x) for k, x in j["$obj"].items()}
    if isinstance(j, int) and not isinstance(j, bool):
        return float(j)
    return j


def existing_props(names):
    """the Props/*.v files among `names` that exist (a file that is not written yet is not an obligation
    of the check; the coordinator lists the final names)"""
    d = os.path.join(os.path.dirname(os.path.dirname(os.path.abspath(__file__))), "coq", "theories", "Props")
    return [n for n in names if os.path.exists(os.path.join(d, n))]
