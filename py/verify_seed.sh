#!/bin/sh
# verify_seed.sh <Cnn> : confirm a seeded change delivered in /tmp/seedout-<Cnn> in a FRESH scratch worktree:
# patch applies, project builds, unedited suite passes, demo fails with the change and passes without it.
# On success the change is stored as /verif/seeded/agent-<Cnn>/.
set -u
P=$1
OUT=/tmp/seedout-$P
WT=$(mktemp -d /tmp/vseed-XXXXXX); rmdir $WT
export GOFLAGS=-mod=mod GOPROXY=off GOSUMDB=off GOTOOLCHAIN=local
git -C /repo worktree add -q --detach $WT HEAD || exit 2
res=""
cd $WT
# demo without the change
if [ -f $OUT/demo.sh ]; then sh $OUT/demo.sh >/dev/null 2>&1; r0=$?; else cp $OUT/demo_test.go . && go test -vet=off -count=1 -run 'Demo|Seed|C10|Determin|Repeat' . >/dev/null 2>&1; r0=$?; fi
git apply $OUT/patch.diff || { echo "$P: patch does not apply"; git -C /repo worktree remove --force $WT; exit 1; }
go build ./... || res="$res build-fails"
rm -f demo_test.go
go test -vet=off -count=1 ./... >/tmp/vseed-$P.log 2>&1 || res="$res suite-fails"
if [ -f $OUT/demo.sh ]; then sh $OUT/demo.sh >/dev/null 2>&1; r1=$?; else cp $OUT/demo_test.go . && go test -vet=off -count=1 -run 'Demo|Seed|C10|Determin|Repeat' . >/dev/null 2>&1; r1=$?; fi
[ "$r0" = "0" ] || res="$res demo-fails-without-change($r0)"
[ "$r1" != "0" ] || res="$res demo-passes-with-change"
cd /
git -C /repo worktree remove --force $WT
if [ -z "$res" ]; then
  D=/verif/seeded/agent-$P
  mkdir -p $D
  cp $OUT/patch.diff $D/patch.diff
  [ -f $OUT/demo.sh ] && cp $OUT/demo.sh $D/demo.sh
  [ -f $OUT/demo_test.go ] && cp $OUT/demo_test.go $D/demo_test.go
  python3 - "$P" <<'PY'
import json, sys
p = sys.argv[1]
m = json.load(open('/tmp/seedout-%s/meta.json' % p))
m["property"] = p
m["origin"] = "independent sub-agent given only the property text and a scratch worktree"
m["verified_by_coordinator"] = ["patch applies on a fresh worktree of /repo HEAD", "go build ./... succeeds", "unedited test-suite passes with the change",
                                "demonstration exits 0 without the change and non-zero with it"]
json.dump(m, open('/verif/seeded/agent-%s/meta.json' % p, 'w'), indent=1)
PY
  echo "$P: VERIFIED -> $D"
else
  echo "$P: REJECTED:$res"
fi
