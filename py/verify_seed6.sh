#!/bin/sh
# verify_seed2.sh <id> : confirm a round-6 seeded change delivered in /tmp/seed6/out/<id> in a FRESH scratch
# worktree: patch applies, project builds, unedited suite passes, and the demonstration (demo.sh <binary>)
# prints something different with the change than without it.  On success: /verif/seeded/agent6-<id>/.
set -u
ID=$1
OUT=/tmp/seed6/out/$ID
WT=$(mktemp -d /tmp/vseed6-XXXXXX); rmdir $WT
export GOFLAGS=-mod=mod GOPROXY=off GOSUMDB=off GOTOOLCHAIN=local
git -C /repo worktree add -q --detach $WT HEAD || exit 2
res=""
cd $WT
go build -o $WT/jq0 . || res="$res base-build-fails"
timeout 120 sh $OUT/demo.sh $WT/jq0 > $WT/out0.txt 2>&1
git apply $OUT/patch.diff || { echo "$ID: REJECTED: patch does not apply"; cd /; git -C /repo worktree remove --force $WT; exit 1; }
go build ./... || res="$res build-fails"
go test -vet=off -count=1 ./... > $WT/suite.log 2>&1 || res="$res suite-fails"
go build -o $WT/jq1 . || res="$res build-fails"
timeout 120 sh $OUT/demo.sh $WT/jq1 > $WT/out1.txt 2>&1
cmp -s $WT/out0.txt $WT/out1.txt && res="$res demo-output-identical"
if [ -z "$res" ]; then
  D=/verif/seeded/agent6-$ID
  mkdir -p $D
  cp $OUT/patch.diff $D/patch.diff
  cp $OUT/demo.sh $D/demo.sh
  head -c 4000 $WT/out0.txt > $D/demo.unchanged.txt
  head -c 4000 $WT/out1.txt > $D/demo.changed.txt
  python3 - "$ID" <<'PY'
import json, sys
i = sys.argv[1]
m = json.load(open('/tmp/seed6/out/%s/meta.json' % i))
m["property"] = i.split("-")[0]
m["origin"] = "independent sub-agent (round 6) given only the property text and a scratch worktree"
m["verified_by_coordinator"] = ["patch applies on a fresh worktree of /repo HEAD", "go build ./... succeeds", "unedited test-suite passes with the change",
                                "demo.sh prints different output on the changed binary than on the unchanged one (demo.unchanged.txt / demo.changed.txt)"]
json.dump(m, open('/verif/seeded/agent6-%s/meta.json' % i, 'w'), indent=1)
PY
  echo "$ID: VERIFIED"
else
  echo "$ID: REJECTED:$res"
fi
cd /
git -C /repo worktree remove --force $WT
