#!/bin/sh
# Build the whole framework from files on disk (offline): harness, translator, Coq development
# (full .vo build through coq_makefile), extraction, OCaml model runner. Fails on any forbidden
# vernacular in the Coq sources.
set -e
cd "$(dirname "$0")"
export GOFLAGS=-mod=mod GOPROXY=off GOSUMDB=off GOTOOLCHAIN=local
if grep -rnE '^\s*(Axiom|Parameter|Conjecture|Admitted|Admit Obligations)\b|\badmit\.|Unset Guard Checking|Unset Positivity Checking|Unset Universe Checking|bypass_check|type-in-type|impredicative-set|native_compute' \
     --include='*.v' coq/theories | grep -v '^coq/theories/.*/validate/' ; then
  echo "forbidden vernacular found" >&2
  exit 1
fi
mkdir -p .build evidence replays
( cd coq && coq_makefile -f _CoqProject -o Makefile >/dev/null )
python3 py/build.py
