#!/bin/sh
# placeholder; replaced as the framework grows
exit 0
